----------------------------- MODULE TypedTrace -----------------------------
(***************************************************************************)
(* Trace specification for typed channels (C04, typed part of C11): items  *)
(* are identified by increasing ids per sender; each send is logged with   *)
(* its planned fate (fine, serialization failing early/late, over the size *)
(* limit, cancelled after k polls), its result, the fate reported by its   *)
(* Sending handle, and every receive result is logged.  The per-sender     *)
(* sequence of received items must be a gap-free, duplicate-free, ordered  *)
(* prefix of the successfully sent ones, equal to the originals; failing   *)
(* items never arrive and never take a neighbour with them; loss only as a *)
(* suffix and only when the channel was closed or the connection cut.      *)
(***************************************************************************)
EXTENDS Integers, Sequences, FiniteSets, TLC, Json, IOUtils
Rec == ndJsonDeserialize(IOEnv.TRACE)
VARIABLES l, items, recvd, closed, cut, eos, txDropped, bad
vars == <<l, items, recvd, closed, cut, eos, txDropped, bad>>
Ev == Rec[l]
Has(f) == f \in DOMAIN Ev
Checked(p) == IOEnv.CHECK = "ALL" \/ p = IOEnv.CHECK \/ p = "TOOL"
Flag(p, why) == IF bad = <<>> /\ Checked(p) /\ PrintT("VIOLATION property=" \o p \o " line=" \o ToString(l) \o " reason=" \o why) THEN <<p, why, l>> ELSE bad
Is(e) == l <= Len(Rec) /\ Ev.ev = e /\ l' = l + 1
Put(f, k, v) == IF k \in DOMAIN f THEN [f EXCEPT ![k] = v] ELSE f @@ (k :> v)

\* items[id] = [s: sender, mode, res: "pending"|"ok"|"queued"|"err"|"cancel", fate: ""|"ok"|"dropped"|"err"]
Good(i) == items[i].res = "ok" \/ items[i].fate = "ok"            \* certainly transmitted completely
Bad(i) == items[i].res \in {"err", "cancel"} \/ items[i].fate \in {"dropped", "err"}
SameSender(i, j) == items[i].s = items[j].s
Lossy == closed \/ cut
\* a queued channel (mpsc) that hit an item-specific failure reports it on later sends as well: the caller gets
\* the item back with an error, which the property allows (the item is not lost silently)
Tainted == \E j \in DOMAIN items : items[j].mode \in {"PoisonEarly", "PoisonLate", "Over"}

Init == l = 1 /\ items = <<>> /\ recvd = {} /\ closed = FALSE /\ cut = FALSE /\ eos = FALSE /\ txDropped = 0 /\ bad = <<>>
Reset == /\ Is("reset") /\ items' = <<>> /\ recvd' = {} /\ closed' = FALSE /\ cut' = FALSE /\ eos' = FALSE /\ txDropped' = 0 /\ bad' = bad
Send == /\ Is("t_send") /\ items' = Put(items, Ev.id, [s |-> Ev.s, mode |-> Ev.mode, res |-> "pending", fate |-> ""])
        /\ UNCHANGED <<recvd, closed, cut, eos, txDropped, bad>>
Sent == /\ Is("t_sent")
        /\ items' = Put(items, Ev.id, [items[Ev.id] EXCEPT !.res = Ev.res])
        /\ LET it == items[Ev.id] IN
           bad' = IF Ev.res \in {"ok", "queued"} /\ it.mode = "Over" THEN Flag("C04", "item over the size limit was accepted by the sender")
                  ELSE IF Ev.res = "ok" /\ it.mode \in {"PoisonEarly", "PoisonLate"} THEN Flag("C04", "send of an item whose serialization fails reported success")
                  ELSE IF Ev.res = "err" /\ it.mode = "Ok" /\ ~Lossy /\ ~Tainted /\ Ev.kind \notin {"closed"} THEN Flag("C04", "send of a well-formed item failed on a healthy channel")
                  ELSE bad
        /\ UNCHANGED <<recvd, closed, cut, eos, txDropped>>
Sending == /\ Is("t_sending")
           /\ items' = Put(items, Ev.id, [items[Ev.id] EXCEPT !.fate = Ev.res])
           /\ LET it == items[Ev.id]
                  laterRecvd == \E j \in recvd : SameSender(j, Ev.id) /\ j > Ev.id
                  earlierDropped == \E j \in DOMAIN items : SameSender(j, Ev.id) /\ j < Ev.id /\ items[j].fate = "dropped" IN
              bad' = IF Ev.res = "ok" /\ it.mode \in {"PoisonEarly", "PoisonLate"} THEN Flag("C04", "Sending handle of an item whose serialization fails reported success")
                     ELSE IF Ev.res = "ok" /\ Ev.id \notin recvd /\ laterRecvd THEN Flag("C04", "transmitted item is missing although a later item of the same sender was received")
                     ELSE IF Ev.res = "ok" /\ earlierDropped THEN Flag("C11", "a value was transmitted after an earlier one of the same sender was reported dropped (not a suffix)")
                     ELSE IF Ev.res = "dropped" /\ ~Lossy THEN Flag("C11", "value reported dropped although the channel was neither closed nor cut")
                     ELSE IF Ev.res = "err" /\ it.mode = "Ok" /\ ~Lossy /\ ~Tainted THEN Flag("C04", "well-formed item failed to transmit on a healthy channel")
                     ELSE bad
           /\ UNCHANGED <<recvd, closed, cut, eos, txDropped>>
RecvItem == /\ Is("t_recv") /\ Ev.r = "item"
            /\ recvd' = recvd \cup {Ev.id}
            /\ LET known == Ev.id \in DOMAIN items
                   it == IF known THEN items[Ev.id] ELSE [s |-> 0, mode |-> "", res |-> "", fate |-> ""]
                   missing == \E j \in DOMAIN items : known /\ j < Ev.id /\ items[j].s = it.s /\ Good(j) /\ j \notin recvd
                   later == \E j \in recvd : known /\ items[j].s = it.s /\ j > Ev.id IN
               bad' = IF ~known THEN Flag("C04", "received an item that was never sent")
                      ELSE IF ~Ev.eq THEN Flag("C04", "received item differs from the original (truncated, merged or corrupted)")
                      ELSE IF Ev.id \in recvd THEN Flag("C04", "item received twice")
                      ELSE IF later THEN Flag("C04", "items of one sender received out of order")
                      ELSE IF it.mode \in {"PoisonEarly", "PoisonLate", "Over"} THEN Flag("C04", "an item that failed individually was delivered")
                      ELSE IF it.res = "cancel" THEN Flag("C04", "an item whose send was cancelled was delivered")
                      ELSE IF missing THEN Flag("C04", "an item sent successfully before this one by the same sender was lost")
                      ELSE IF eos THEN Flag("C04", "item received after end of stream")
                      ELSE bad
            /\ UNCHANGED <<items, closed, cut, eos, txDropped>>
RecvOther == /\ Is("t_recv") /\ Ev.r # "item"
             /\ eos' = (eos \/ Ev.r = "none" \/ (Ev.r = "err" /\ Ev.final))
             /\ LET lost == \E j \in DOMAIN items : Good(j) /\ j \notin recvd IN
                bad' = IF Ev.r = "none" /\ lost /\ ~Lossy THEN Flag("C11", "end of stream with successfully sent items missing")
                       ELSE IF Ev.r = "err" /\ Ev.final /\ ~cut THEN Flag("C04", "receiver failed finally on a healthy connection")
                       ELSE bad
             /\ UNCHANGED <<items, recvd, closed, cut, txDropped>>
\* embedded channel half: what comes back through the item's own oneshot channel
Echo == /\ Is("t_echo")
        /\ bad' = IF Ev.got >= 0 /\ Ev.got # Ev.id THEN Flag("C05", "a channel half embedded in an item is connected to the counterpart of another item")
                  ELSE IF Ev.got >= 0 /\ Ev.id \notin recvd THEN Flag("C05", "embedded channel half works although its item was never delivered")
                  ELSE IF Ev.got < 0 /\ Ev.id \in recvd /\ ~cut THEN Flag("C05", "embedded channel half of a delivered item is not connected to its counterpart")
                  ELSE bad
        /\ UNCHANGED <<items, recvd, closed, cut, eos, txDropped>>
Close == /\ Is("t_close") /\ closed' = TRUE /\ UNCHANGED <<items, recvd, cut, eos, txDropped, bad>>
Fault == /\ Is("fault") /\ cut' = TRUE /\ UNCHANGED <<items, recvd, closed, eos, txDropped, bad>>
DropTx == /\ Is("t_drop_tx") /\ txDropped' = txDropped + 1 /\ UNCHANGED <<items, recvd, closed, cut, eos, bad>>
End == /\ Is("t_end")
       /\ LET lost == \E j \in DOMAIN items : Good(j) /\ j \notin recvd IN
          bad' = IF Ev.pending > 0 THEN Flag("C04", "senders or receiver still waiting at the end")
                 ELSE IF lost /\ ~Lossy THEN Flag("C04", "successfully sent item never delivered")
                 ELSE bad
       /\ UNCHANGED <<items, recvd, closed, cut, eos, txDropped>>
\* a sender that keeps its queue non-empty after the receiver closed must get to see the close
FloodDone == /\ Is("t_flood_done")
             /\ bad' = IF Ev.stopped = "cap" /\ closed /\ ~cut THEN Flag("C11", "receiver was closed but a sender that kept sending never observed it")
                       ELSE bad
             /\ UNCHANGED <<items, recvd, closed, cut, eos, txDropped>>
Known == {"t_flood_done", "t_echo", "reset", "t_send", "t_sent", "t_sending", "t_recv", "t_close", "fault", "t_drop_tx", "t_end"}
Skip == /\ l <= Len(Rec) /\ Ev.ev \notin Known /\ l' = l + 1 /\ UNCHANGED <<items, recvd, closed, cut, eos, txDropped, bad>>
Next == FloodDone \/ Echo \/ Reset \/ Send \/ Sent \/ Sending \/ RecvItem \/ RecvOther \/ Close \/ Fault \/ DropTx \/ End \/ Skip
Spec == Init /\ [][Next]_vars
Inv_C04 == bad = <<>> \/ bad[1] # "C04"
Inv_C11 == bad = <<>> \/ bad[1] # "C11"
Inv_C05 == bad = <<>> \/ bad[1] # "C05"
Inv_TOOL == bad = <<>> \/ bad[1] # "TOOL"
Accepted == IF TLCGet("stats").diameter - 1 = Len(Rec) THEN TRUE
            ELSE Print(<<"TRACE NOT CONSUMED", TLCGet("stats").diameter - 1, Len(Rec)>>, FALSE)
=============================================================================
