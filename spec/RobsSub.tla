------------------------------ MODULE RobsSub ------------------------------
(***************************************************************************)
(* Subscription point of a mirror (C13, "snapshot and event subscription   *)
(* taken atomically"): a mirror task applies the events 1..N of an observed*)
(* collection one at a time - under the mirror's write lock it forwards    *)
(* the event to the receivers registered so far and appends it to the      *)
(* mirrored contents.  Subscribers register a receiver and take a snapshot *)
(* of the contents under the read lock; a downstream mirror is the         *)
(* snapshot followed by the received events.  Readers may hold the read    *)
(* lock for a while; the lock is fair (a waiting writer blocks new         *)
(* readers), which is what lets a subscriber wait between its two steps.   *)
(* Events are non-idempotent (append), so both a lost and a duplicated     *)
(* event are visible.  Atomic = FALSE is the deviation in which the        *)
(* receiver is registered before the read lock is acquired.                *)
(***************************************************************************)
EXTENDS Integers, Sequences, FiniteSets, TLC
CONSTANTS N, Subs, Readers, Atomic
VARIABLES next,      \* next event the mirror task will apply
          m1,        \* mirrored contents (sequence of applied events)
          writerWaits,\* the mirror task is queued for the write lock
          rdrs,      \* holders of the read lock
          sst,       \* subscriber state: "idle" | "registered" | "done"
          rxq,       \* per subscriber: events received by its receiver
          snap       \* per subscriber: snapshot
vars == <<next, m1, writerWaits, rdrs, sst, rxq, snap>>

Init == /\ next = 1 /\ m1 = <<>> /\ writerWaits = FALSE /\ rdrs = {}
        /\ sst = [s \in Subs |-> "idle"] /\ rxq = [s \in Subs |-> <<>>] /\ snap = [s \in Subs |-> <<>>]

\* ---- mirror task: an event arrived, queue for the write lock, then forward + apply atomically under it
WantWrite == /\ next <= N /\ ~writerWaits /\ writerWaits' = TRUE /\ UNCHANGED <<next, m1, rdrs, sst, rxq, snap>>
Apply == /\ writerWaits /\ rdrs = {}
         /\ rxq' = [s \in Subs |-> IF sst[s] # "idle" THEN Append(rxq[s], next) ELSE rxq[s]]
         /\ m1' = Append(m1, next) /\ next' = next + 1 /\ writerWaits' = FALSE
         /\ UNCHANGED <<rdrs, sst, snap>>
\* ---- readers of the mirror (borrow): new readers wait behind a queued writer
Borrow(r) == /\ r \notin rdrs /\ ~writerWaits /\ rdrs' = rdrs \cup {r} /\ UNCHANGED <<next, m1, writerWaits, sst, rxq, snap>>
Release(r) == /\ r \in rdrs /\ rdrs' = rdrs \ {r} /\ UNCHANGED <<next, m1, writerWaits, sst, rxq, snap>>
\* ---- subscribers
SubAtomic(s) == /\ Atomic /\ sst[s] = "idle" /\ ~writerWaits      \* read lock acquired: register + snapshot
                /\ sst' = [sst EXCEPT ![s] = "done"] /\ snap' = [snap EXCEPT ![s] = m1]
                /\ UNCHANGED <<next, m1, writerWaits, rdrs, rxq>>
Register(s) == /\ ~Atomic /\ sst[s] = "idle" /\ sst' = [sst EXCEPT ![s] = "registered"]
               /\ UNCHANGED <<next, m1, writerWaits, rdrs, rxq, snap>>
Snapshot(s) == /\ ~Atomic /\ sst[s] = "registered" /\ ~writerWaits
               /\ sst' = [sst EXCEPT ![s] = "done"] /\ snap' = [snap EXCEPT ![s] = m1]
               /\ UNCHANGED <<next, m1, writerWaits, rdrs, rxq>>
Next == WantWrite \/ Apply \/ \E r \in Readers : Borrow(r) \/ Release(r)
        \/ \E s \in Subs : SubAtomic(s) \/ Register(s) \/ Snapshot(s)
Spec == Init /\ [][Next]_vars

Downstream(s) == snap[s] \o rxq[s]
\* C13: a downstream mirror that has processed the events forwarded so far holds exactly the mirror's contents
C13_DownstreamEqual == \A s \in Subs : sst[s] = "done" => Downstream(s) = m1
=============================================================================
