----------------------------- MODULE WatchTrace -----------------------------
(***************************************************************************)
(* Trace specification for rch::watch (C15): the sender sends 1, 2, 3, ... *)
(* Every receiver (local, remote over 1..3 connections, created or         *)
(* transferred at any moment) logs each value it observes.  Observations   *)
(* must have been sent, never go backwards, and after the sender is        *)
(* dropped every receiver whose connections hold must have seen the last   *)
(* value (Watch.tla states the same invariants on the forwarding model).   *)
(***************************************************************************)
EXTENDS Integers, Sequences, FiniteSets, TLC, Json, IOUtils
Rec == ndJsonDeserialize(IOEnv.TRACE)
VARIABLES l, nsent, rxs, dropped, cut, bad
vars == <<l, nsent, rxs, dropped, cut, bad>>
Ev == Rec[l]
Checked(p) == IOEnv.CHECK = "ALL" \/ p = IOEnv.CHECK \/ p = "TOOL"
Flag(p, why) == IF bad = <<>> /\ Checked(p) /\ PrintT("VIOLATION property=" \o p \o " line=" \o ToString(l) \o " reason=" \o why) THEN <<p, why, l>> ELSE bad
Is(e) == l <= Len(Rec) /\ Ev.ev = e /\ l' = l + 1
Put(f, k, v) == IF k \in DOMAIN f THEN [f EXCEPT ![k] = v] ELSE f @@ (k :> v)

Init == l = 1 /\ nsent = 0 /\ rxs = <<>> /\ dropped = FALSE /\ cut = FALSE /\ bad = <<>>
Reset == /\ Is("reset") /\ nsent' = 0 /\ rxs' = <<>> /\ dropped' = FALSE /\ cut' = FALSE /\ bad' = bad
New == /\ Is("w_new") /\ rxs' = Put(rxs, Ev.rx, [last |-> 0 - 1, hops |-> Ev.hops, final |-> FALSE, born |-> Ev.after])
       /\ UNCHANGED <<nsent, dropped, cut, bad>>
Send == /\ Is("w_send") /\ nsent' = Ev.v
        /\ bad' = IF ~Ev.ok /\ ~cut THEN Flag("C15", "send failed although receivers exist") ELSE bad
        /\ UNCHANGED <<rxs, dropped, cut>>
Obs == /\ l <= Len(Rec) /\ Ev.ev \in {"w_obs", "w_final"} /\ l' = l + 1
       /\ LET r == rxs[Ev.rx]  remoteCut == cut /\ r.hops > 0 IN
          /\ rxs' = Put(rxs, Ev.rx, [r EXCEPT !.last = Ev.v, !.final = (Ev.ev = "w_final")])
          /\ bad' = IF Ev.v > nsent THEN Flag("C15", "receiver observed a value that was never sent")
                    ELSE IF Ev.v < r.last THEN Flag("C15", "receiver observed an older value after a newer one")
                    ELSE IF Ev.v < r.born /\ r.hops = 0 THEN Flag("C15", "new local receiver observed a value older than the one current at its creation")
                    ELSE IF Ev.ev = "w_final" /\ Ev.v # nsent /\ ~remoteCut THEN Flag("C15", "after the sender was dropped the receiver does not hold the last value sent")
                    ELSE bad
       /\ UNCHANGED <<nsent, dropped, cut>>
FinalErr == /\ l <= Len(Rec) /\ Ev.ev \in {"w_final_err", "w_err"} /\ l' = l + 1
            /\ bad' = IF ~(cut /\ rxs[Ev.rx].hops > 0) THEN Flag("C15", "receiver failed on a healthy connection") ELSE bad
            /\ UNCHANGED <<nsent, rxs, dropped, cut>>
DropS == /\ Is("w_drop_sender") /\ dropped' = TRUE /\ UNCHANGED <<nsent, rxs, cut, bad>>
Fault == /\ Is("fault") /\ cut' = TRUE /\ UNCHANGED <<nsent, rxs, dropped, bad>>
End == /\ Is("w_end")
       /\ bad' = IF Ev.pending > 0 THEN Flag("C15", "receivers still waiting although the sender was dropped") ELSE bad
       /\ UNCHANGED <<nsent, rxs, dropped, cut>>
Known == {"reset", "w_new", "w_send", "w_obs", "w_final", "w_final_err", "w_err", "w_drop_sender", "fault", "w_end"}
Skip == /\ l <= Len(Rec) /\ Ev.ev \notin Known /\ l' = l + 1 /\ UNCHANGED <<nsent, rxs, dropped, cut, bad>>
Next == Reset \/ New \/ Send \/ Obs \/ FinalErr \/ DropS \/ Fault \/ End \/ Skip
Spec == Init /\ [][Next]_vars
Inv_C15 == bad = <<>> \/ bad[1] # "C15"
Inv_TOOL == bad = <<>> \/ bad[1] # "TOOL"
Accepted == IF TLCGet("stats").diameter - 1 = Len(Rec) THEN TRUE
            ELSE Print(<<"TRACE NOT CONSUMED", TLCGet("stats").diameter - 1, Len(Rec)>>, FALSE)
=============================================================================
