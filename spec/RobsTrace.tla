----------------------------- MODULE RobsTrace -----------------------------
(***************************************************************************)
(* Trace specification for observable collections (C13, C14): the recorded *)
(* run of a TLC-generated operation script on the real collection with a   *)
(* real mirror and a hand-written event consumer.  The reference contents  *)
(* evolve by Robs!Apply; the observable's own contents, the mirror's       *)
(* contents and the fold of the received events (Robs!ApplyEvent) must all *)
(* equal them after every operation.                                       *)
(***************************************************************************)
EXTENDS Robs, TLC, Json, IOUtils

Rec == ndJsonDeserialize(IOEnv.TRACE)
VARIABLES l, kind, coll, isDone, sub, fold, lastOp, bad
vars == <<l, kind, coll, isDone, sub, fold, lastOp, bad>>

Ev == Rec[l]
Has(f) == f \in DOMAIN Ev
Checked(p) == IOEnv.CHECK = "ALL" \/ p = IOEnv.CHECK \/ p = "TOOL"
Flag(p, why) == IF bad = <<>> /\ Checked(p) /\ PrintT("VIOLATION property=" \o p \o " line=" \o ToString(l) \o " reason=" \o why) THEN <<p, why, l>> ELSE bad
Is(e) == l <= Len(Rec) /\ Ev.ev = e /\ l' = l + 1

Keyed(k) == k \in {"map", "set"}
\* JSON contents -> reference representation (pairs -> function)
FromJson(k, c) == IF Keyed(k) THEN [x \in {c[j][1] : j \in 1..Len(c)} |-> (CHOOSE j \in 1..Len(c) : c[j][1] = x)] ELSE c
Value(k, c) == IF Keyed(k) THEN LET idx == FromJson(k, c) IN [x \in DOMAIN idx |-> c[idx[x]][2]] ELSE c
\* JSON event -> event record of Robs (index sets arrive as arrays)
EvOf(e) == IF "idx" \in DOMAIN e THEN [e EXCEPT !.idx = {e.idx[j] : j \in 1..Len(e.idx)}] ELSE e
Evs(es) == [j \in 1..Len(es) |-> EvOf(es[j])]

Init == l = 1 /\ kind = "vec" /\ coll = <<>> /\ isDone = FALSE /\ sub = "none" /\ fold = <<>> /\ lastOp = "" /\ bad = <<>>
Reset == /\ Is("reset") /\ kind' = Ev.coll /\ coll' = Value(Ev.coll, Ev.init) /\ isDone' = FALSE /\ sub' = "none" /\ fold' = <<>> /\ lastOp' = ""
         /\ bad' = bad

Sub == /\ Is("robs_sub") /\ sub' = Ev.mode
       /\ fold' = IF Ev.has_initial THEN Value(kind, Ev.initial) ELSE (IF Keyed(kind) THEN Empty ELSE <<>>)
       /\ bad' = IF Ev.has_initial /\ Value(kind, Ev.initial) # coll THEN Flag("C13", "snapshot taken by a subscription differs from the collection") ELSE bad
       /\ UNCHANGED <<kind, coll, isDone, lastOp>>

Op == /\ Is("robs_op") /\ coll' = Apply(kind, coll, Ev.op) /\ isDone' = (isDone \/ Ev.op.o = "done") /\ lastOp' = Ev.op.o
      /\ UNCHANGED <<kind, sub, fold, bad>>

State == /\ Is("robs_state")
         /\ bad' = IF Value(kind, Ev.obs) # coll THEN Flag("C13", "contents of the observable collection differ from the reference semantics after " \o lastOp)
                   ELSE IF Ev.done # isDone THEN Flag("C13", "done flag of the observable collection is wrong after " \o lastOp)
                   ELSE bad
         /\ UNCHANGED <<kind, coll, isDone, sub, fold, lastOp>>

Events == /\ Is("robs_events")
          /\ LET es == Evs(Ev.evs)
                 ok == \A j \in 1..Len(es) : EventOK(kind, Fold(kind, fold, SubSeq(es, 1, j - 1)), es[j])
                 f1 == IF ok THEN Fold(kind, fold, es) ELSE fold IN
             /\ fold' = f1
             /\ bad' = IF Ev.err # "" THEN Flag("C14", "event subscription failed although it kept up with the collection")
                       ELSE IF ~ok THEN Flag("C13", "received event does not apply to the contents built from the events so far (" \o lastOp \o ")")
                       ELSE IF Ev.drained /\ f1 # coll THEN Flag("C13", "consuming the event stream by hand gives contents that differ from the collection after " \o lastOp)
                       ELSE bad
          /\ UNCHANGED <<kind, coll, isDone, sub, lastOp>>

Mirror == /\ Is("robs_mirror")
          /\ bad' = IF Ev.err # "" /\ (IOEnv.CHECK = "C13" \/ IOEnv.CHECK = "ALL") THEN Flag("C13", "mirror failed (" \o Ev.err \o ") although every emitted event applies to it, after " \o lastOp)
                    ELSE IF Ev.err # "" THEN Flag("C14", "mirror reports an error although nothing was skipped, dropped or cut")
                    ELSE IF Value(kind, Ev.contents) # coll THEN Flag("C13", "mirror differs from the observed collection after " \o lastOp)
                    ELSE IF Ev.done # isDone THEN Flag("C13", "mirror's done flag differs from the collection's after " \o lastOp)
                    ELSE IF ~Ev.complete THEN Flag("C13", "mirror is not complete although the initial contents were delivered")
                    ELSE bad
          /\ UNCHANGED <<kind, coll, isDone, sub, fold, lastOp>>

Panic == /\ Is("robs_panic") /\ bad' = Flag("C13", "operation panicked: " \o Ev.op.o)
         /\ UNCHANGED <<kind, coll, isDone, sub, fold, lastOp>>

Known == {"reset", "robs_sub", "robs_op", "robs_state", "robs_events", "robs_mirror", "robs_panic"}
Skip == /\ l <= Len(Rec) /\ Ev.ev \notin Known /\ l' = l + 1 /\ UNCHANGED <<kind, coll, isDone, sub, fold, lastOp, bad>>
Next == Reset \/ Sub \/ Op \/ State \/ Events \/ Mirror \/ Panic \/ Skip
Spec == Init /\ [][Next]_vars

Inv_C13 == bad = <<>> \/ bad[1] # "C13"
Inv_C14 == bad = <<>> \/ bad[1] # "C14"
Inv_TOOL == bad = <<>> \/ bad[1] # "TOOL"
Accepted == IF TLCGet("stats").diameter - 1 = Len(Rec) THEN TRUE
            ELSE Print(<<"TRACE NOT CONSUMED", TLCGet("stats").diameter - 1, Len(Rec)>>, FALSE)
=============================================================================
