SPECIFICATION Spec
CONSTANTS
 Hops = 2
 NVals = 4
INVARIANTS C15_Mono C15_Sent
PROPERTY C15_Latest
CHECK_DEADLOCK FALSE
