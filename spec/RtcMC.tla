------------------------------- MODULE RtcMC -------------------------------
(* Bounded instance of Rtc: four calls (two mutable, one of them hanging and abandoned by its caller, one
   non-cancellable; two by reference), request channel of two. *)
EXTENDS Rtc
MCCalls == {1, 2, 3, 4}
MCKind == (1 :> "mut") @@ (2 :> "ref") @@ (3 :> "mut") @@ (4 :> "ref")
MCCancellable == [c \in MCCalls |-> c # 3]
MCHang == {1}
MCHangRef == {2}
=============================================================================
