SPECIFICATION Spec
CONSTANTS
 Chunk = 8
 RBuf = 6
 MaxData = 3
 QA = 1
 QB = 1
 Pipe = 1
 NOps = 3
 Lens = {1}
 PortCounts = {2}
 Kinds = {"send","ports"}
 Dev = {"F3"}
INVARIANTS C03_NoEmptyPorts

