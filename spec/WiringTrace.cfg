SPECIFICATION Spec
INVARIANTS Inv_C05 Inv_TOOL
POSTCONDITION Accepted
CHECK_DEADLOCK FALSE
