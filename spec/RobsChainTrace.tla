--------------------------- MODULE RobsChainTrace ---------------------------
(***************************************************************************)
(* Trace specification for the concurrent mirror chain (C13): an observed  *)
(* collection is mutated by one task while readers hold the first mirror   *)
(* and subscribers attach second-level mirrors at arbitrary moments.  Each *)
(* second-level mirror reports its contents once it is done; they must be  *)
(* the final contents of the observed collection (RobsSub!Downstream = m1  *)
(* at the end of the event stream).                                        *)
(***************************************************************************)
EXTENDS Integers, Sequences, FiniteSets, TLC, Json, IOUtils
Rec == ndJsonDeserialize(IOEnv.TRACE)
VARIABLES l, final, haveFinal, reports, bad
vars == <<l, final, haveFinal, reports, bad>>
Ev == Rec[l]
Checked(p) == IOEnv.CHECK = "ALL" \/ p = IOEnv.CHECK \/ p = "TOOL"
Flag(p, why) == IF bad = <<>> /\ Checked(p) /\ PrintT("VIOLATION property=" \o p \o " line=" \o ToString(l) \o " reason=" \o why) THEN <<p, why, l>> ELSE bad
Is(e) == l <= Len(Rec) /\ Ev.ev = e /\ l' = l + 1
Init == l = 1 /\ final = <<>> /\ haveFinal = FALSE /\ reports = <<>> /\ bad = <<>>
Reset == Is("reset") /\ final' = <<>> /\ haveFinal' = FALSE /\ reports' = <<>> /\ bad' = bad
Final == Is("chain_final") /\ final' = Ev.obs /\ haveFinal' = TRUE /\ UNCHANGED <<reports, bad>>
\* a mirror can only report done after the collection was marked done
Mirror == /\ Is("chain_mirror") /\ reports' = Append(reports, Ev.sub)
          /\ bad' = IF Ev.err # "" THEN Flag("C13", "second-level mirror failed (" \o Ev.err \o ") although no event was skipped")
                    ELSE IF ~haveFinal THEN Flag("C13", "mirror reports done before the collection was marked done")
                    ELSE IF Ev.contents # final THEN Flag("C13", "mirror attached to a mirror while events were in flight differs from the observed collection (event lost or applied twice)")
                    ELSE bad
          /\ UNCHANGED <<final, haveFinal>>
End == /\ Is("chain_end")
       /\ bad' = IF Ev.pending > 0 THEN Flag("C13", "a mirror never reached the done state of the observed collection") ELSE bad
       /\ UNCHANGED <<final, haveFinal, reports>>
Known == {"reset", "chain_final", "chain_mirror", "chain_end"}
Skip == /\ l <= Len(Rec) /\ Ev.ev \notin Known /\ l' = l + 1 /\ UNCHANGED <<final, haveFinal, reports, bad>>
Next == Reset \/ Final \/ Mirror \/ End \/ Skip
Spec == Init /\ [][Next]_vars
Inv_C13 == bad = <<>> \/ bad[1] # "C13"
Inv_TOOL == bad = <<>> \/ bad[1] # "TOOL"
Accepted == IF TLCGet("stats").diameter - 1 = Len(Rec) THEN TRUE
            ELSE Print(<<"TRACE NOT CONSUMED", TLCGet("stats").diameter - 1, Len(Rec)>>, FALSE)
=============================================================================
