SPECIFICATION Spec
INVARIANTS Inv_C09 Inv_C08 Inv_TOOL
POSTCONDITION Accepted
CHECK_DEADLOCK FALSE
