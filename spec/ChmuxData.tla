----------------------------- MODULE ChmuxData -----------------------------
(***************************************************************************)
(* Exhaustive model of one chmux port direction: sender operations on A    *)
(* (send / try_send / send_chunks / port-open batch), A's event queue and  *)
(* transport queue, the wire, B's dispatcher (credit monitor, per-port     *)
(* receive queue), B's receiver calls (recv_any / recv_chunk as used by    *)
(* rch::base and forward), the credit returner and the credit frames back. *)
(* One action per await-to-await block of the implementation:              *)
(*   Request  = CreditUser::request / try_request (under the pool mutex)   *)
(*   Reserve  = tx.reserve().await (queue slot)                            *)
(*   Enqueue  = credits.take + permit.send                                 *)
(*   Cancel   = dropping the future / ChunkSender at any await             *)
(*   MuxA/MuxB = handle_event(SendData|SendPorts|ReturnCredits) + send_task *)
(*   MuxBRecv/MuxARecv = handle_received_msg(Data|PortData|PortCredits)    *)
(*   RecvAny / RecvChunk = one dequeue step of Receiver::recv_any/chunk    *)
(*   Flush    = ChannelCreditReturner::return_flush                        *)
(* The defects of the pinned tree are kept as named deviations (constant   *)
(* Dev): "F1" lost message after a cancelled chunked message, "F2" credits *)
(* taken before the queue slot is reserved, "F3" empty PortData frames     *)
(* with fewer than 4 credits.  Dev = {} is the repaired tree.              *)
(***************************************************************************)
EXTENDS Integers, Sequences, FiniteSets, TLC, ChmuxProps

CONSTANTS Chunk,       \* chunk size advertised by B
          RBuf,        \* receive buffer advertised by B
          MaxData,     \* B's max_data_size
          QA, QB,      \* event-queue capacity of A / B (shared_send_queue)
          Pipe,        \* frames in flight per direction
          NOps,        \* number of sender operations
          Lens,        \* message lengths
          PortCounts,  \* sizes of port-open batches
          Kinds,       \* subset of {"send", "try", "chunks", "ports"}
          Dev          \* deviations enabled

VARIABLES pool, held, op, nops, nextId, evqA, pipeAB, prq, used, toret, retPending, evqB, pipeBA,
          asm, pend, rmode, committed, delivered, cancelledIds, emptyPortFrames, sent, granted, grantedE, arrived

vars == <<pool, held, op, nops, nextId, evqA, pipeAB, prq, used, toret, retPending, evqB, pipeBA,
          asm, pend, rmode, committed, delivered, cancelledIds, emptyPortFrames, sent, granted, grantedE, arrived>>
obs == <<committed, delivered, cancelledIds, sent, granted, grantedE, arrived>>   \* observation (history) variables

Min(a, b) == IF a < b THEN a ELSE b
Thr == ReturnThreshold(RBuf)
Idle == [k |-> "idle"]
FixF1 == "F1" \notin Dev
FixF2 == "F2" \notin Dev
FixF3 == "F3" \notin Dev

Init == /\ pool = RBuf /\ held = 0 /\ op = Idle /\ nops = 0 /\ nextId = 1
        /\ evqA = <<>> /\ pipeAB = <<>> /\ prq = <<>> /\ used = 0 /\ toret = 0 /\ retPending = 0
        /\ evqB = <<>> /\ pipeBA = <<>> /\ asm = [k |-> "none"] /\ pend = <<>> /\ rmode = "any"
        /\ committed = <<>> /\ delivered = <<>> /\ cancelledIds = {} /\ emptyPortFrames = 0
        /\ sent = 0 /\ granted = 0 /\ grantedE = 0 /\ arrived = 0

FCost(f) == IF f.k = "P" THEN PortCost(f.n) ELSE DataCost(f.n)
Msg(o) == [id |-> o.id, k |-> (IF o.k = "ports" THEN "ports" ELSE "data"), len |-> o.len]

\* ------------------------------------------------------------------ sender operations
Start == /\ op = Idle /\ nops < NOps /\ nops' = nops + 1 /\ nextId' = nextId + 1
         /\ \/ \E l \in Lens : "send" \in Kinds /\ op' = [k |-> "send", id |-> nextId, len |-> l, rem |-> l, first |-> TRUE, pc |-> "req", at |-> 0]
            \/ \E l \in Lens \ {0} : "chunks" \in Kinds /\ op' = [k |-> "chunks", id |-> nextId, len |-> l, rem |-> l, first |-> TRUE, pc |-> "req", at |-> 0]
            \/ \E n \in PortCounts : "ports" \in Kinds /\ op' = [k |-> "ports", id |-> nextId, len |-> n, rem |-> n, first |-> TRUE, pc |-> "req", at |-> 0]
         /\ UNCHANGED <<pool, held, evqA, pipeAB, prq, used, toret, retPending, evqB, pipeBA, asm, pend, rmode, committed, delivered, cancelledIds, emptyPortFrames, sent, granted, grantedE, arrived>>

Blocking == op.k \in {"send", "chunks", "ports"}
NeedCredit == IF op.k = "ports" THEN (IF FixF3 THEN held < 4 ELSE held = 0) ELSE held = 0
ReqAmt == IF op.k = "ports" THEN 4 * op.rem ELSE IF op.rem = 0 THEN 1 ELSE op.rem
ReqMin == IF op.k = "ports" THEN 4 ELSE 1
Request == /\ Blocking /\ op.pc = "req"
           /\ IF NeedCredit
                THEN /\ pool + held >= ReqMin      \* leftover credits are returned first (repaired connect)
                     /\ LET avail == pool + held  t == Min(avail, ReqAmt) IN held' = t /\ pool' = avail - t
                ELSE UNCHANGED <<pool, held>>
           /\ op' = [op EXCEPT !.pc = "prep"]
           /\ UNCHANGED <<nops, nextId, evqA, pipeAB, prq, used, toret, retPending, evqB, pipeBA, asm, pend, rmode, committed, delivered, cancelledIds, emptyPortFrames, sent, granted, grantedE, arrived>>
Cost(o) == IF o.k = "ports" THEN 4 * o.at ELSE IF o.len = 0 THEN 1 ELSE o.at
\* size of the next chunk; with deviation F2 the credits leave `held` here, before the queue wait
Prep == /\ Blocking /\ op.pc = "prep"
        /\ LET at == IF op.k = "ports" THEN Min(op.rem, Min(Chunk, held) \div 4) ELSE Min(Min(op.rem, Chunk), held)
               o1 == [op EXCEPT !.pc = "enq", !.at = at] IN
             /\ op' = o1
             /\ held' = IF FixF2 THEN held ELSE held - Cost(o1)
        /\ UNCHANGED <<pool, nops, nextId, evqA, pipeAB, prq, used, toret, retPending, evqB, pipeBA, asm, pend, rmode, committed, delivered, cancelledIds, emptyPortFrames, sent, granted, grantedE, arrived>>
Enqueue == /\ Blocking /\ op.pc = "enq" /\ Len(evqA) < QA
           /\ LET last == (op.rem - op.at = 0)
                  fr == [k |-> IF op.k = "ports" THEN "P" ELSE "D", id |-> op.id, n |-> op.at, first |-> op.first, last |-> last]
                  h1 == IF FixF2 THEN held - Cost(op) ELSE held IN
                /\ evqA' = Append(evqA, fr)
                /\ emptyPortFrames' = IF op.k = "ports" /\ op.at = 0 THEN emptyPortFrames + 1 ELSE emptyPortFrames
                /\ IF last
                     THEN /\ op' = Idle /\ pool' = pool + h1 /\ held' = 0 /\ committed' = Append(committed, Msg(op))
                     ELSE /\ op' = [op EXCEPT !.rem = op.rem - op.at, !.first = FALSE, !.pc = "req", !.at = 0]
                          /\ held' = h1 /\ UNCHANGED <<pool, committed>>
           /\ UNCHANGED <<nops, nextId, pipeAB, prq, used, toret, retPending, evqB, pipeBA, asm, pend, rmode, delivered, cancelledIds, sent, granted, grantedE, arrived>>
\* dropping the future / ChunkSender at any await: unused held credits flow back (AssignedCredits::drop)
Cancel == /\ Blocking
          /\ pool' = pool + held /\ held' = 0 /\ op' = Idle /\ cancelledIds' = cancelledIds \cup {op.id}
          /\ UNCHANGED <<nops, nextId, evqA, pipeAB, prq, used, toret, retPending, evqB, pipeBA, asm, pend, rmode, committed, delivered, emptyPortFrames, sent, granted, grantedE, arrived>>

\* try_send: one synchronous call; all credits up front, chunks queued until the queue is full
NChunks(l) == IF l = 0 THEN 1 ELSE (l + Chunk - 1) \div Chunk
ChunkLen(l, i) == IF l = 0 THEN 0 ELSE IF i < NChunks(l) THEN Chunk ELSE l - Chunk * (NChunks(l) - 1)
TrySend == /\ op = Idle /\ nops < NOps /\ "try" \in Kinds
           /\ \E l \in Lens :
                LET need == DataCost(l)
                    room == QA - Len(evqA)
                    k == Min(NChunks(l), room)
                    frames == [i \in 1..k |-> [k |-> "D", id |-> nextId, n |-> ChunkLen(l, i), first |-> i = 1, last |-> i = NChunks(l)]]
                    spent == LET S[i \in 0..k] == IF i = 0 THEN 0 ELSE S[i - 1] + DataCost(ChunkLen(l, i)) IN S[k]
                    leaked == IF FixF2 \/ k = NChunks(l) THEN 0 ELSE DataCost(ChunkLen(l, k + 1)) IN
                /\ nops' = nops + 1 /\ nextId' = nextId + 1
                /\ IF pool >= need
                     THEN /\ evqA' = evqA \o frames /\ pool' = pool - spent - leaked
                          /\ IF k = NChunks(l) THEN committed' = Append(committed, [id |-> nextId, k |-> "data", len |-> l]) /\ UNCHANGED cancelledIds
                                               ELSE cancelledIds' = cancelledIds \cup {nextId} /\ UNCHANGED committed
                     ELSE UNCHANGED <<evqA, pool, committed>> /\ cancelledIds' = cancelledIds \cup {nextId}   \* Full
           /\ UNCHANGED <<held, op, pipeAB, prq, used, toret, retPending, evqB, pipeBA, asm, pend, rmode, delivered, emptyPortFrames, sent, granted, grantedE, arrived>>

\* ------------------------------------------------------------------ multiplexers and transport
MuxA == /\ evqA # <<>> /\ Len(pipeAB) < Pipe /\ pipeAB' = Append(pipeAB, Head(evqA)) /\ evqA' = Tail(evqA)
        /\ sent' = sent + FCost(Head(evqA))
        /\ UNCHANGED <<pool, held, op, nops, nextId, prq, used, toret, retPending, evqB, pipeBA, asm, pend, rmode, committed, delivered, cancelledIds, emptyPortFrames, granted, grantedE, arrived>>
MuxBRecv == /\ pipeAB # <<>> /\ LET f == Head(pipeAB) IN
               /\ used' = used + FCost(f) /\ arrived' = arrived + FCost(f) /\ prq' = Append(prq, f) /\ pipeAB' = Tail(pipeAB)
            /\ UNCHANGED <<pool, held, op, nops, nextId, evqA, toret, retPending, evqB, pipeBA, asm, pend, rmode, committed, delivered, cancelledIds, emptyPortFrames, sent, granted, grantedE>>
MuxB == /\ evqB # <<>> /\ Len(pipeBA) < Pipe /\ pipeBA' = Append(pipeBA, Head(evqB)) /\ evqB' = Tail(evqB)
        /\ grantedE' = grantedE + Head(evqB)
        /\ UNCHANGED <<pool, held, op, nops, nextId, evqA, pipeAB, prq, used, toret, retPending, asm, pend, rmode, committed, delivered, cancelledIds, emptyPortFrames, sent, granted, arrived>>
MuxARecv == /\ pipeBA # <<>> /\ pool' = pool + Head(pipeBA) /\ granted' = granted + Head(pipeBA) /\ pipeBA' = Tail(pipeBA)
            /\ UNCHANGED <<held, op, nops, nextId, evqA, pipeAB, prq, used, toret, retPending, evqB, asm, pend, rmode, committed, delivered, cancelledIds, emptyPortFrames, sent, grantedE, arrived>>

\* ------------------------------------------------------------------ receiver
Flush == /\ retPending > 0 /\ Len(evqB) < QB /\ evqB' = Append(evqB, retPending) /\ retPending' = 0
         /\ UNCHANGED <<pool, held, op, nops, nextId, evqA, pipeAB, prq, used, toret, pipeBA, asm, pend, rmode, committed, delivered, cancelledIds, emptyPortFrames, sent, granted, grantedE, arrived>>
\* start_return on a dequeued frame f
Ret(f) == LET t == toret + FCost(f) IN
            /\ used' = used - FCost(f)
            /\ IF t >= Thr THEN /\ toret' = 0
                                /\ IF Len(evqB) < QB THEN evqB' = Append(evqB, t) /\ retPending' = 0
                                                     ELSE retPending' = t /\ UNCHANGED evqB
               ELSE toret' = t /\ UNCHANGED <<evqB, retPending>>
Deliver(m) == delivered' = Append(delivered, m)

\* recv_any processing of one frame f (from the queue or kept aside by the repaired recv_chunk)
AnyProcess(f) ==
    IF f.k = "D"
      THEN LET base == IF f.first THEN [k |-> "data", id |-> f.id, n |-> 0] ELSE asm IN
           IF base.k = "data"
             THEN IF base.n + f.n <= MaxData
                    THEN IF f.last THEN Deliver([id |-> base.id, k |-> "data", len |-> base.n + f.n]) /\ asm' = [k |-> "none"] /\ UNCHANGED rmode
                                   ELSE asm' = [base EXCEPT !.n = base.n + f.n] /\ UNCHANGED <<delivered, rmode>>
                    ELSE asm' = [k |-> "chunks", id |-> base.id, n |-> base.n + f.n, q |-> 1, completed |-> f.last] /\ rmode' = "chunk" /\ UNCHANGED delivered
             ELSE asm' = [k |-> "none"] /\ UNCHANGED <<delivered, rmode>>      \* mem::take leaves Nothing
      ELSE LET base == IF f.first THEN [k |-> "reqs", id |-> f.id, n |-> 0] ELSE asm IN
           IF base.k = "reqs"
             THEN IF f.last THEN Deliver([id |-> base.id, k |-> "ports", len |-> base.n + f.n]) /\ asm' = [k |-> "none"] /\ UNCHANGED rmode
                            ELSE asm' = [base EXCEPT !.n = base.n + f.n] /\ UNCHANGED <<delivered, rmode>>
             ELSE asm' = [k |-> "none"] /\ UNCHANGED <<delivered, rmode>>

RecvAny == /\ rmode = "any" /\ retPending = 0
           /\ \/ /\ pend # <<>> /\ pend' = <<>> /\ AnyProcess(pend[1]) /\ UNCHANGED <<prq, used, toret, evqB, retPending>>
              \/ /\ pend = <<>> /\ prq # <<>> /\ prq' = Tail(prq) /\ Ret(Head(prq)) /\ AnyProcess(Head(prq)) /\ UNCHANGED pend
           /\ UNCHANGED <<pool, held, op, nops, nextId, evqA, pipeAB, pipeBA, committed, cancelledIds, emptyPortFrames, sent, granted, grantedE, arrived>>

\* recv_chunk: asm.k = "chunks": q buffered chunks (content abstracted), then the queue
Streaming == asm.k = "chunks"
RecvChunk == /\ rmode = "chunk" /\ retPending = 0
             /\ \/ /\ Streaming /\ asm.q > 0 /\ asm' = [asm EXCEPT !.q = 0]            \* hand out buffered chunks
                   /\ UNCHANGED <<prq, used, toret, evqB, retPending, delivered, rmode, pend>>
                \/ /\ Streaming /\ asm.q = 0 /\ asm.completed                            \* Ok(None): message complete
                   /\ Deliver([id |-> asm.id, k |-> "data", len |-> asm.n]) /\ asm' = [k |-> "none"] /\ rmode' = "any"
                   /\ UNCHANGED <<prq, used, toret, evqB, retPending, pend>>
                \/ /\ ~(Streaming /\ (asm.q > 0 \/ asm.completed)) /\ prq # <<>> /\ LET f == Head(prq) IN
                      /\ prq' = Tail(prq) /\ Ret(f)
                      /\ IF f.k = "D"
                           THEN IF Streaming /\ f.first
                                  THEN \* Cancelled: a new message started
                                       /\ rmode' = "any" /\ UNCHANGED delivered
                                       /\ IF FixF1 THEN pend' = <<f>> /\ asm' = [k |-> "none"]
                                                   ELSE asm' = [k |-> "chunks", id |-> f.id, n |-> f.n, q |-> 1, completed |-> f.last] /\ UNCHANGED pend
                                  ELSE IF Streaming \/ f.first
                                         THEN asm' = [k |-> "chunks", id |-> (IF f.first THEN f.id ELSE asm.id), n |-> (IF f.first THEN f.n ELSE asm.n + f.n), q |-> 1, completed |-> f.last]
                                              /\ UNCHANGED <<delivered, rmode, pend>>
                                         ELSE UNCHANGED <<asm, delivered, rmode, pend>>
                           ELSE IF Streaming
                                  THEN /\ asm' = [k |-> "none"] /\ rmode' = "any" /\ UNCHANGED delivered      \* Cancelled by a port batch
                                       /\ IF FixF1 /\ f.first THEN pend' = <<f>> ELSE UNCHANGED pend
                                  ELSE UNCHANGED <<asm, delivered, rmode, pend>>
             /\ UNCHANGED <<pool, held, op, nops, nextId, evqA, pipeAB, pipeBA, committed, cancelledIds, emptyPortFrames, sent, granted, grantedE, arrived>>

Quiet == /\ op = Idle /\ nops = NOps /\ evqA = <<>> /\ pipeAB = <<>> /\ prq = <<>> /\ evqB = <<>> /\ pipeBA = <<>> /\ retPending = 0
         /\ ~(rmode = "chunk" /\ Streaming /\ (asm.q > 0 \/ asm.completed)) /\ pend = <<>>
Term == Quiet /\ UNCHANGED vars
Next == Start \/ Request \/ Prep \/ Enqueue \/ Cancel \/ TrySend \/ MuxA \/ MuxBRecv \/ MuxB \/ MuxARecv \/ Flush \/ RecvAny \/ RecvChunk \/ Term
NextNoCancel == Start \/ Request \/ Prep \/ Enqueue \/ TrySend \/ MuxA \/ MuxBRecv \/ MuxB \/ MuxARecv \/ Flush \/ RecvAny \/ RecvChunk \/ Term
Fair == WF_vars(Request) /\ WF_vars(Prep) /\ WF_vars(Enqueue) /\ WF_vars(MuxA) /\ WF_vars(MuxBRecv) /\ WF_vars(MuxB) /\ WF_vars(MuxARecv)
        /\ WF_vars(Flush) /\ WF_vars(RecvAny) /\ WF_vars(RecvChunk) /\ WF_vars(Start) /\ WF_vars(TrySend)
Spec == Init /\ [][Next]_vars /\ Fair

\* ------------------------------------------------------------------ properties (same formulas as ChmuxTrace)
\* C01: delivered is a prefix of committed (ids, kinds, lengths); nothing of a cancelled/failed op is delivered
C01_Prefix == IsPrefix(delivered, committed)
C01_NoGhost == \A i \in 1..Len(delivered) : delivered[i].id \notin cancelledIds
\* C02: wire-level bound, chunk bound, no grant beyond what arrived / was consumed
C02_Bound == BoundOK(sent, granted, RBuf)
C02_Chunk == \A i \in 1..Len(pipeAB) : FCost(pipeAB[i]) <= Chunk \/ (pipeAB[i].k = "D" /\ pipeAB[i].n = 0)
C02_Grant == grantedE <= arrived /\ grantedE + toret + retPending + (LET S[i \in 0..Len(evqB)] == IF i = 0 THEN 0 ELSE S[i - 1] + evqB[i] IN S[Len(evqB)]) + used = arrived
C02_Internal == used <= RBuf /\ pool + held <= RBuf /\ pool >= 0 /\ held >= 0
\* C03: no credit vanishes, no frames without progress
C03_NoLeak == Quiet => pool + toret = RBuf
C03_NoEmptyPorts == emptyPortFrames = 0
C03_Conservation == op = Idle => pool + (sent - granted) + (LET S[i \in 0..Len(evqA)] == IF i = 0 THEN 0 ELSE S[i - 1] + FCost(evqA[i]) IN S[Len(evqA)]) = RBuf
C01_Live == <>[](Quiet /\ delivered = committed)
C03_Live == <>[]Quiet
=============================================================================
