---- MODULE ChmuxPeerMCc ----
EXTENDS ChmuxPeerMC
C1 == [chunk |-> 4, rbuf |-> 6, cq |-> 1]
====
