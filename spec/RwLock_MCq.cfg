SPECIFICATION Spec
CONSTANTS Readers = {1,2}
 Writers = {1,2}
 FixF4 = TRUE
INVARIANTS Excl Fresh HoldersOk
PROPERTY Live
