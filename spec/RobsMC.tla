------------------------------ MODULE RobsMC ------------------------------
(* Exhaustive check of the reference semantics (C13 at the model level): for every bounded state and every
   operation, a mirror that folds the specified events over the old contents obtains the new contents.
   Also generates operation scripts (one JSON line each) for the replay into the real collections. *)
EXTENDS Robs, TLC, Json
CONSTANTS Vals, MaxLen, Kinds
VARIABLES kind, s, op
vars == <<kind, s, op>>

Seqs == UNION {[1..n -> Vals] : n \in 0..MaxLen}
Keys == Vals
Maps == UNION {[d -> Vals] : d \in SUBSET Keys}
States(k) == IF k \in {"vec", "deque", "list"} THEN Seqs ELSE Maps

SeqOps(k, st) ==
    LET n == Len(st) IN
    (IF k = "vec" THEN {[o |-> "push", v |-> v] : v \in Vals} \cup {[o |-> "pop"]} \cup {[o |-> "swap_remove", i |-> i] : i \in 0..(n - 1)}
                       \cup {[o |-> "fill", v |-> v] : v \in Vals}
     ELSE {[o |-> oo, v |-> v] : oo \in {"push_back", "push_front"}, v \in Vals} \cup {[o |-> "pop_back"], [o |-> "pop_front"]}
          \cup {[o |-> oo, i |-> i] : oo \in {"swap_remove_back", "swap_remove_front"}, i \in 0..n})
    \cup {[o |-> "set", i |-> i, v |-> v] : i \in 0..n, v \in Vals}
    \cup {[o |-> "iter_set", v |-> v] : v \in Vals}
    \cup {[o |-> "insert", i |-> i, v |-> v] : i \in 0..n, v \in Vals}
    \cup {[o |-> "remove", i |-> i] : i \in 0..(IF k = "vec" THEN n - 1 ELSE n)}
    \cup {[o |-> "resize", n |-> m, v |-> v] : m \in 0..(MaxLen + 1), v \in Vals}
    \cup {[o |-> "truncate", n |-> m] : m \in 0..(MaxLen + 1)}
    \cup {[o |-> "retain_ne", v |-> v] : v \in Vals}
    \cup {[o |-> oo] : oo \in {"clear", "retain_none", "retain_all", "shrink", "done"}}
ListOps == {[o |-> "push", v |-> v] : v \in Vals} \cup {[o |-> "done"]}
MapOps == {[o |-> oo, k |-> k, v |-> v] : oo \in {"insert", "entry_insert", "get_mut_set", "or_insert", "and_modify_or_insert"}, k \in Keys, v \in Vals}
          \cup {[o |-> oo, k |-> k] : oo \in {"remove", "entry_remove"}, k \in Keys}
          \cup {[o |-> oo, v |-> v] : oo \in {"iter_set", "retain_ne", "retain_mut"}, v \in Vals}
          \cup {[o |-> oo] : oo \in {"clear", "retain_none", "retain_all", "shrink", "done"}}
SetOps == {[o |-> oo, k |-> k, v |-> v] : oo \in {"insert", "replace"}, k \in Keys, v \in Vals}
          \cup {[o |-> oo, k |-> k] : oo \in {"remove", "take", "retain_ne"}, k \in Keys}
          \cup {[o |-> oo] : oo \in {"clear", "retain_none", "retain_all", "shrink", "done"}}
Ops(k, st) == CASE k \in {"vec", "deque"} -> SeqOps(k, st) [] k = "list" -> ListOps [] k = "map" -> MapOps [] k = "set" -> SetOps

\* events specified for the keyed collections
KeyedEmits(k, m, o) ==
    LET ks == DOMAIN m
        Seq3(P(_)) == SelectSeq(<<1, 2, 3, 4>>, P) IN
    CASE o.o \in {"insert", "entry_insert", "and_modify_or_insert", "replace"} ->
            IF k = "set" /\ o.o = "insert" /\ o.k \in ks THEN <<>> ELSE <<[e |-> "Set", k |-> o.k, v |-> o.v]>>
      [] o.o = "or_insert" -> IF o.k \in ks THEN <<>> ELSE <<[e |-> "Set", k |-> o.k, v |-> o.v]>>
      [] o.o = "get_mut_set" -> IF o.k \in ks THEN <<[e |-> "Set", k |-> o.k, v |-> o.v]>> ELSE <<>>
      [] o.o \in {"remove", "entry_remove", "take"} -> IF o.k \in ks THEN <<[e |-> "Remove", k |-> o.k]>> ELSE <<>>
      [] o.o = "iter_set" -> LET order == Seq3(LAMBDA x : x \in ks) IN [j \in 1..Len(order) |-> [e |-> "Set", k |-> order[j], v |-> o.v]]
      [] o.o = "clear" -> IF ks = {} THEN <<>> ELSE Ev1("Clear")
      [] o.o = "retain_ne" -> LET gone == IF k = "map" THEN Seq3(LAMBDA x : x \in ks /\ m[x] = o.v) ELSE Seq3(LAMBDA x : x \in ks /\ x = o.k) IN
                              [j \in 1..Len(gone) |-> [e |-> "Remove", k |-> gone[j]]]
      [] o.o = "retain_none" -> LET gone == Seq3(LAMBDA x : x \in ks) IN [j \in 1..Len(gone) |-> [e |-> "Remove", k |-> gone[j]]]
      [] o.o = "retain_mut" -> <<>>       \* deviation F5 of the implementation: the changed values are not reported
      [] o.o = "retain_all" -> <<>>
      [] o.o = "shrink" -> Ev1("ShrinkToFit")
      [] o.o = "done" -> Ev1("Done")
Emits(k, st, o) == IF k \in {"vec", "deque", "list"} THEN SeqEmits(k, st, o) ELSE KeyedEmits(k, st, o)

Init == kind \in Kinds /\ s \in States(kind) /\ op \in Ops(kind, s)
Next == UNCHANGED vars
Spec == Init /\ [][Next]_vars

\* C13 on the model: the mirror obtains exactly the collection
MirrorEqualsCollection == op.o # "retain_mut" => Fold(kind, s, Emits(kind, s, op)) = Apply(kind, s, op)
\* F5 (known finding): retain with a closure that mutates kept values emits nothing, so the theorem fails for it
MirrorEqualsCollectionAll == Fold(kind, s, Emits(kind, s, op)) = Apply(kind, s, op)
EventsApplicable == \A j \in 1..Len(Emits(kind, s, op)) : EventOK(kind, Fold(kind, s, SubSeq(Emits(kind, s, op), 1, j - 1)), Emits(kind, s, op)[j])
=============================================================================
