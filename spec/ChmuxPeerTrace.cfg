SPECIFICATION Spec
INVARIANTS Inv_TOOL Inv_C08 Inv_C09 Inv_C10 Inv_Buffered
POSTCONDITION Accepted
CHECK_DEADLOCK FALSE
