SPECIFICATION Spec
CONSTANTS
 Subs = {1, 2, 3}
 Cap <- CapC
 NVals = 5
 Fast = {3}
INVARIANTS C16_Gap C16_KeepUp C16_SendNeverBlocked
CHECK_DEADLOCK FALSE
