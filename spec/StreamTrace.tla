----------------------------- MODULE StreamTrace -----------------------------
(***************************************************************************)
(* Trace specification for the length-prefixed framing of stream           *)
(* transports (C09, C08 frame length cap).  Typed connections run over     *)
(* Connect::io on a byte stream that the harness delivers in arbitrary     *)
(* pieces (split points also inside the length prefix); the harness-side   *)
(* adapter re-parses the 4-byte little-endian prefix of everything an      *)
(* endpoint writes.  An endpoint must never emit a frame longer than the   *)
(* max_frame_length its peer derives from the configuration it advertised  *)
(* (MAX_MSG_LENGTH + chunk_size): the peer's framing layer rejects such a  *)
(* frame and the connection is lost.  Whatever travelled must still arrive *)
(* (the scenario's own verdicts are checked by its own trace spec).        *)
(***************************************************************************)
EXTENDS Integers, Sequences, FiniteSets, TLC, Json, IOUtils
Rec == ndJsonDeserialize(IOEnv.TRACE)
VARIABLES l, streams, lost, cut, bad
vars == <<l, streams, lost, cut, bad>>
Ev == Rec[l]
Checked(p) == IOEnv.CHECK = "ALL" \/ p = IOEnv.CHECK \/ p = "TOOL"
Flag(p, why) == IF bad = <<>> /\ Checked(p) /\ PrintT("VIOLATION property=" \o p \o " line=" \o ToString(l) \o " reason=" \o why) THEN <<p, why, l>> ELSE bad
Is(e) == l <= Len(Rec) /\ Ev.ev = e /\ l' = l + 1
Init == l = 1 /\ streams = 0 /\ lost = 0 /\ cut = FALSE /\ bad = <<>>
Reset == Is("reset") /\ streams' = 0 /\ lost' = 0 /\ cut' = FALSE /\ bad' = bad
Transport == Is("transport") /\ streams' = streams + (IF Ev.stream THEN 1 ELSE 0) /\ UNCHANGED <<lost, cut, bad>>
Oversize == /\ Is("st_oversize_emitted")
            /\ bad' = Flag("C09", "an endpoint emitted a frame longer than the max_frame_length of its peer (MAX_MSG_LENGTH + the peer's chunk_size): the peer's stream framing rejects it")
            /\ UNCHANGED <<streams, lost, cut>>
Fault == Is("fault") /\ cut' = TRUE /\ UNCHANGED <<streams, lost, bad>>
Lost == /\ Is("w_lost") /\ lost' = lost + 1
        /\ bad' = IF ~cut /\ streams > 0 /\ "max_ports" \notin DOMAIN Ev THEN Flag("C09", "a value was lost on a healthy connection over a stream transport") ELSE bad
        /\ UNCHANGED <<streams, cut>>
\* ---- hostile peer: a frame longer than the victim's max_frame_length
Item == /\ Is("sh_item")
        /\ bad' = IF ~Ev.sent \/ Ev.got # Ev.v THEN Flag("C09", "item did not arrive intact over the stream transport") ELSE bad
        /\ UNCHANGED <<streams, lost, cut>>
Inject == Is("sh_inject") /\ cut' = TRUE /\ UNCHANGED <<streams, lost, bad>>
ConnEnd == /\ Is("sh_conn_end")
           /\ bad' = IF Ev.ok THEN Flag("C08", "connection ended without error after a frame exceeding the frame length cap") ELSE bad
           /\ UNCHANGED <<streams, lost, cut>>
After == /\ Is("sh_after")
         /\ bad' = IF Ev.conn_pending > 0 THEN Flag("C08", "endpoint kept waiting for (buffering) a frame longer than its frame length cap instead of failing")
                    ELSE IF Ev.send_ok THEN Flag("C08", "a send succeeded after the connection was terminated by an oversized frame")
                    ELSE IF ~Ev.recv_err THEN Flag("C08", "a receive did not fail after the connection was terminated by an oversized frame")
                    ELSE bad
         /\ UNCHANGED <<streams, lost, cut>>
Known == {"sh_item", "sh_inject", "sh_conn_end", "sh_after", "reset", "transport", "st_oversize_emitted", "fault", "w_lost"}
Skip == l <= Len(Rec) /\ Ev.ev \notin Known /\ l' = l + 1 /\ UNCHANGED <<streams, lost, cut, bad>>
Next == Item \/ Inject \/ ConnEnd \/ After \/ Reset \/ Transport \/ Oversize \/ Fault \/ Lost \/ Skip
Spec == Init /\ [][Next]_vars
Inv_C09 == bad = <<>> \/ bad[1] # "C09"
Inv_C08 == bad = <<>> \/ bad[1] # "C08"
Inv_TOOL == bad = <<>> \/ bad[1] # "TOOL"
Accepted == IF TLCGet("stats").diameter - 1 = Len(Rec) THEN TRUE
            ELSE Print(<<"TRACE NOT CONSUMED", TLCGet("stats").diameter - 1, Len(Rec)>>, FALSE)
=============================================================================
