SPECIFICATION Spec
CONSTANTS NReq = 1
 Connectors = {"A"}
 WithClose = TRUE
INVARIANTS NoPanic NoProtocolError OnceResolved FreeOnlyWhenDone Paired
