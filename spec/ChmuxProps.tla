---------------------------- MODULE ChmuxProps ----------------------------
(***************************************************************************)
(* Property formulas shared by the exhaustive chmux models and the trace   *)
(* specification (single source of truth for what C01/C02/C03 demand of    *)
(* the observation-level state).                                           *)
(***************************************************************************)
EXTENDS Integers, Sequences

IsPrefix(s, t) == Len(s) <= Len(t) /\ \A i \in 1..Len(s) : s[i] = t[i]

\* C02: payload put on the transport minus credit granted back never exceeds the advertised buffer
BoundOK(sent, granted, rbuf) == sent - granted <= rbuf

\* credit cost of a data frame / of a port batch
DataCost(n) == IF n = 0 THEN 1 ELSE n
PortCost(n) == 4 * n

\* threshold at which a receiver returns credit (policy; liveness depends on it)
ReturnThreshold(rbuf) == IF rbuf >= 8 THEN rbuf \div 2 ELSE 1
=============================================================================
