---------------------------- MODULE ChmuxPeerMC ----------------------------
(***************************************************************************)
(* Exhaustive exploration of ChmuxPeer!Handle: an arbitrary peer sends any *)
(* sequence of frames over a finite alphabet (every message kind, ports    *)
(* that are connecting / connected / half-closed / unknown, payload        *)
(* lengths 0, 1, chunk, chunk+1, credits 1 and 2^32-1, duplicated and      *)
(* malformed frames) while the endpoint under test issues local connects.  *)
(* Checked: the verdict function is total, the endpoint never holds more   *)
(* than its advertised buffer while it keeps running, and every verdict is *)
(* reachable (coverage), which is what the conformance leg relies on.      *)
(***************************************************************************)
EXTENDS ChmuxPeer, TLC
CONSTANTS C, Depth
VARIABLES s, v, n
vars == <<s, v, n>>

LocalPorts == {1, 2}          \* client ports the endpoint may open
AnyPort == {1, 2, 9}          \* 9: a port the endpoint never opened
RemotePorts == {21, 22}
Lens == {0, 1, C.chunk, C.chunk + 1}
Alphabet ==
    {[k |-> kk] : kk \in {"Bad", "Reset", "Hello", "Ping", "ClientFinish", "ListenerFinish", "Goodbye"}}
    \cup {[k |-> "OpenPort", client |-> r, wait |-> w] : r \in RemotePorts, w \in BOOLEAN}
    \cup {[k |-> "PortOpened", client |-> p, server |-> 31] : p \in AnyPort}
    \cup {[k |-> "Rejected", client |-> p] : p \in AnyPort}
    \cup {[k |-> "Data", port |-> p, len |-> ln] : p \in AnyPort, ln \in Lens}
    \cup {[k |-> "PortData", port |-> p, ports |-> ps] : p \in AnyPort, ps \in {<<>>, <<21>>, <<22, 22>>, <<23, 24>>}}
    \cup {[k |-> "PortCredits", port |-> p, credits |-> c] : p \in AnyPort, c \in {1, Huge}}
    \cup {[k |-> kk, port |-> p] : kk \in {"SendFinish", "ReceiveClose", "ReceiveFinish"}, p \in AnyPort}

Init == s = State0 /\ v = "run" /\ n = 0
Connect(p) == /\ v = "run" /\ n < Depth /\ p \notin DOMAIN s.ports /\ s' = LocalConnect(s, p) /\ n' = n + 1 /\ UNCHANGED v
Recv(f) == /\ v = "run" /\ n < Depth /\ LET r == Handle(C, s, f) IN s' = r.s /\ v' = r.v
           /\ n' = n + 1
Next == (\E p \in LocalPorts : Connect(p)) \/ (\E f \in Alphabet : Recv(f))
Spec == Init /\ [][Next]_vars

VerdictOK == v \in {"run", "protocol", "reset", "bye"}
Buffered == v = "run" => BufferedOK(C, s)
\* coverage witnesses (checked as invariants that must be VIOLATED in the sensitivity configuration)
NeverBye == v # "bye"
NeverFullBuffer == ~(v = "run" /\ \E p \in DOMAIN s.ports : s.ports[p].st = "connected" /\ s.ports[p].used = C.rbuf)
=============================================================================
