SPECIFICATION FairSpec
CONSTANTS
 T <- TA
 D = 1
 MaxNow = 13
 Kinds = {"sink_err", "stream_err", "stream_end", "stall", "stall_both"}
INVARIANTS NoSpuriousTimeout FailStop NoOpSurvives ClockOK
PROPERTY OpsFail
CHECK_DEADLOCK FALSE
