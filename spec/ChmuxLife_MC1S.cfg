SPECIFICATION Spec
CONSTANTS NReq = 1
 Connectors = {"A"}
 WithClose = FALSE
INVARIANTS NoPanic NoProtocolError OnceResolved FreeOnlyWhenDone Paired
