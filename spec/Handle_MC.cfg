SPECIFICATION Spec
CONSTANTS
  Copies = {1, 2, 3}
  Eps = {1, 2, 3}
  Origin = 1
  AttachAnywhere = FALSE
INVARIANT C20_Confined
PROPERTY C20_Released
CHECK_DEADLOCK FALSE
