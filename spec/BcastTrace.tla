----------------------------- MODULE BcastTrace -----------------------------
(***************************************************************************)
(* Trace specification for rch::broadcast (C16): per subscriber the        *)
(* sequence of Ok(value) / Lagged / Closed results is checked against the  *)
(* broadcast sequence 1, 2, 3, ... with the formulas of Broadcast.tla      *)
(* (GapMarked, KeepUp): values increasing and sent before they were        *)
(* received, every gap (also the one at the subscription point) carries a  *)
(* lag marker, the subscriber that keeps up misses nothing, nothing is     *)
(* pending at the end, send never fails while subscribers exist.           *)
(***************************************************************************)
EXTENDS Integers, Sequences, FiniteSets, TLC, Json, IOUtils
Rec == ndJsonDeserialize(IOEnv.TRACE)
VARIABLES l, nsent, subs, cut, calm, bad
vars == <<l, nsent, subs, cut, calm, bad>>
Ev == Rec[l]
Has(f) == f \in DOMAIN Ev
Checked(p) == IOEnv.CHECK = "ALL" \/ p = IOEnv.CHECK \/ p = "TOOL"
Flag(p, why) == IF bad = <<>> /\ Checked(p) /\ PrintT("VIOLATION property=" \o p \o " line=" \o ToString(l) \o " reason=" \o why) THEN <<p, why, l>> ELSE bad
Is(e) == l <= Len(Rec) /\ Ev.ev = e /\ l' = l + 1
Put(f, k, v) == IF k \in DOMAIN f THEN [f EXCEPT ![k] = v] ELSE f @@ (k :> v)

\* subs[s] = [last: last value received (or the value current when subscribing), lag: lag marker since then,
\*            fast, remote, open]
Init == l = 1 /\ nsent = 0 /\ subs = <<>> /\ cut = FALSE /\ calm = FALSE /\ bad = <<>>
Reset == /\ Is("reset") /\ nsent' = 0 /\ subs' = <<>> /\ cut' = FALSE /\ calm' = FALSE /\ bad' = bad
Sub == /\ Is("bc_sub") /\ subs' = Put(subs, Ev.sub, [last |-> Ev.after, lag |-> FALSE, fast |-> Ev.fast, remote |-> Ev.remote, open |-> TRUE])
       /\ UNCHANGED <<nsent, cut, calm, bad>>
Send == /\ Is("bc_send") /\ nsent' = Ev.v
        /\ bad' = IF Ev.v # nsent + 1 THEN Flag("TOOL", "harness sent values out of order")
                  ELSE IF Ev.n < 0 /\ \E s \in DOMAIN subs : subs[s].open /\ ~(cut /\ subs[s].remote) THEN Flag("C16", "send failed although subscribers exist")
                  ELSE bad
        /\ UNCHANGED <<subs, cut, calm>>
Recv == /\ Is("bc_recv")
        /\ LET s == subs[Ev.sub] IN
           CASE Ev.r = "val" ->
                   /\ subs' = Put(subs, Ev.sub, [s EXCEPT !.last = Ev.v, !.lag = FALSE])
                   /\ bad' = IF Ev.v > nsent THEN Flag("C16", "subscriber received a value that was never broadcast")
                             ELSE IF Ev.v <= s.last THEN Flag("C16", "subscriber received a value out of order or twice")
                             ELSE IF Ev.v # s.last + 1 /\ ~s.lag THEN Flag("C16", "values were skipped without a lag error at that position")
                             ELSE IF s.fast /\ (Ev.v # s.last + 1) THEN Flag("C16", "a subscriber that keeps up missed a value")
                             ELSE bad
             [] Ev.r = "lagged" ->
                   /\ subs' = Put(subs, Ev.sub, [s EXCEPT !.lag = TRUE])
                   /\ bad' = IF s.fast THEN Flag("C16", "a subscriber that keeps up was reported as lagging") ELSE bad
             [] Ev.r = "closed" ->
                   /\ subs' = Put(subs, Ev.sub, [s EXCEPT !.open = FALSE])
                   /\ bad' = IF s.last # nsent /\ ~s.lag /\ ~(cut /\ s.remote) THEN Flag("C16", "stream ended with values missing and no lag error")
                             ELSE IF calm /\ s.last # nsent /\ ~(cut /\ s.remote) THEN Flag("C16", "a subscriber that had lagged was never re-admitted: values sent while it had room were not delivered")
                             ELSE bad
             [] OTHER ->
                   /\ subs' = Put(subs, Ev.sub, [s EXCEPT !.open = FALSE])
                   /\ bad' = IF ~(cut /\ s.remote) THEN Flag("C16", "subscriber failed on a healthy connection") ELSE bad
        /\ UNCHANGED <<nsent, cut, calm>>
Unsub == /\ Is("bc_unsub") /\ subs' = Put(subs, Ev.sub, [subs[Ev.sub] EXCEPT !.open = FALSE]) /\ UNCHANGED <<nsent, cut, calm, bad>>
Fault == /\ Is("fault") /\ cut' = TRUE /\ UNCHANGED <<nsent, subs, calm, bad>>
\* from here on values are sent with long gaps: every subscriber has room, nobody can lag
Calm == /\ Is("bc_calm") /\ calm' = TRUE /\ UNCHANGED <<nsent, subs, cut, bad>>
End == /\ Is("bc_end")
       /\ bad' = IF Ev.pending > 0 THEN Flag("C16", "subscribers still waiting after the sender was dropped") ELSE bad
       /\ UNCHANGED <<nsent, subs, cut, calm>>
\* two sender clones used from two threads at the same time: both values reach every subscriber (which has room)
BtSend == /\ Is("bt_send")
          /\ bad' = IF ~Ev.ok THEN Flag("C16", "a send on one sender clone failed (no subscribers) while another clone was sending") ELSE bad
          /\ UNCHANGED <<nsent, subs, cut, calm>>
BtSub == /\ Is("bt_sub")
         /\ bad' = IF Ev.got # <<1000, 2000>> /\ ~Ev.lagged THEN Flag("C16", "a value broadcast while another sender clone was sending did not reach a subscriber that had room, and no lag was reported")
                   ELSE IF Ev.lagged THEN Flag("C16", "a subscriber with free buffer space was reported as lagging")
                   ELSE bad
         /\ UNCHANGED <<nsent, subs, cut, calm>>
Known == {"bt_send", "bt_sub", "bc_calm", "reset", "bc_sub", "bc_send", "bc_recv", "bc_unsub", "fault", "bc_end"}
Skip == /\ l <= Len(Rec) /\ Ev.ev \notin Known /\ l' = l + 1 /\ UNCHANGED <<nsent, subs, cut, calm, bad>>
Next == BtSend \/ BtSub \/ Calm \/ Reset \/ Sub \/ Send \/ Recv \/ Unsub \/ Fault \/ End \/ Skip
Spec == Init /\ [][Next]_vars
Inv_C16 == bad = <<>> \/ bad[1] # "C16"
Inv_TOOL == bad = <<>> \/ bad[1] # "TOOL"
Accepted == IF TLCGet("stats").diameter - 1 = Len(Rec) THEN TRUE
            ELSE Print(<<"TRACE NOT CONSUMED", TLCGet("stats").diameter - 1, Len(Rec)>>, FALSE)
=============================================================================
