SPECIFICATION Spec
INVARIANTS Inv_C16 Inv_TOOL
POSTCONDITION Accepted
CHECK_DEADLOCK FALSE
