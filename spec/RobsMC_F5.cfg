SPECIFICATION Spec
CONSTANTS
 Vals = {1, 2, 3}
 MaxLen = 2
 Kinds = {"map"}
INVARIANTS MirrorEqualsCollectionAll
CHECK_DEADLOCK FALSE
