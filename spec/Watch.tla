------------------------------- MODULE Watch -------------------------------
(***************************************************************************)
(* rch::watch over a chain of connections (C15).  Hop 0 is the sender's    *)
(* local cell; every further hop h has a forwarding task on hop h-1        *)
(* (changed -> borrow_and_update -> send newest value) and a receiving     *)
(* task that stores what arrives in hop h's cell.  A receiver half that is *)
(* transferred carries a snapshot of the cell it is taken from, marked as  *)
(* seen, so later changes are still forwarded.  The sender may be dropped  *)
(* right after its last send: the forwarder must still flush that value.   *)
(* Checked: every cell only moves forward through sent values (Mono), and  *)
(* under fair scheduling every hop ends with the last value sent (Latest). *)
(***************************************************************************)
EXTENDS Naturals, Sequences, TLC
CONSTANTS Hops, NVals
VARIABLES cell, fwdSeen, wire, nsent, dropped, hist
vars == <<cell, fwdSeen, wire, nsent, dropped, hist>>
H == 0..Hops
Init == cell = [h \in H |-> 0] /\ fwdSeen = [h \in 1..Hops |-> 0] /\ wire = [h \in 1..Hops |-> <<>>] /\ nsent = 0 /\ dropped = FALSE
        /\ hist = [h \in H |-> <<0>>]
Send == /\ ~dropped /\ nsent < NVals /\ nsent' = nsent + 1 /\ cell' = [cell EXCEPT ![0] = nsent + 1]
        /\ hist' = [hist EXCEPT ![0] = Append(@, nsent + 1)] /\ UNCHANGED <<fwdSeen, wire, dropped>>
Drop == /\ ~dropped /\ nsent = NVals /\ dropped' = TRUE /\ UNCHANGED <<cell, fwdSeen, wire, nsent, hist>>
\* forwarding task of hop h-1 -> h: sends the newest value if it has not forwarded it yet (intermediate ones are skipped)
Forward(h) == /\ cell[h - 1] # fwdSeen[h] /\ Len(wire[h]) < 2
              /\ fwdSeen' = [fwdSeen EXCEPT ![h] = cell[h - 1]] /\ wire' = [wire EXCEPT ![h] = Append(@, cell[h - 1])]
              /\ UNCHANGED <<cell, nsent, dropped, hist>>
Deliver(h) == /\ wire[h] # <<>> /\ cell' = [cell EXCEPT ![h] = Head(wire[h])] /\ wire' = [wire EXCEPT ![h] = Tail(@)]
              /\ hist' = [hist EXCEPT ![h] = Append(@, Head(wire[h]))] /\ UNCHANGED <<fwdSeen, nsent, dropped>>
Next == Send \/ Drop \/ (\E h \in 1..Hops : Forward(h) \/ Deliver(h))
Spec == Init /\ [][Next]_vars /\ WF_vars(Send) /\ WF_vars(Drop) /\ \A h \in 1..Hops : WF_vars(Forward(h)) /\ WF_vars(Deliver(h))

C15_Mono == \A h \in H : \A i \in 1..(Len(hist[h]) - 1) : hist[h][i] <= hist[h][i + 1]
C15_Sent == \A h \in H : cell[h] <= nsent
C15_Latest == <>[](\A h \in H : cell[h] = NVals)
=============================================================================
