SPECIFICATION Spec
CONSTANTS
 Chunk = 2
 RBuf = 4
 MaxData = 3
 QA = 1
 QB = 1
 Pipe = 1
 NOps = 3
 Lens = {0,1,3,5}
 PortCounts = {}
 Kinds = {"send","chunks"}
 Dev = {"F1"}
INVARIANTS C01_Prefix

