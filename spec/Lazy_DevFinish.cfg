SPECIFICATION Spec
CONSTANTS
  K = 3
  F = 2
  FinishCancelled = TRUE
INVARIANT C20_NeverTruncated
PROPERTY C20_FetchTerminates
CHECK_DEADLOCK FALSE
