SPECIFICATION GSpec
CONSTANTS
 Vals = {1, 2, 3}
 MaxLen = 3
 Kinds = {"vec", "deque", "list", "map", "set"}
 Depth = 4
INVARIANT GEmit
CHECK_DEADLOCK FALSE
