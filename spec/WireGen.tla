------------------------------ MODULE WireGen ------------------------------
(***************************************************************************)
(* Generates the complete case table of the chmux wire format (C09): every *)
(* message kind x every flag combination x boundary field values, each     *)
(* with its byte encoding under Wire!Enc, plus malformed / truncated /     *)
(* non-canonical byte strings with the verdict of Wire!Dec.  TLC prints    *)
(* one JSON line per vector; the replay leg feeds them to remoc's codec.   *)
(***************************************************************************)
EXTENDS Wire, Json, TLC, FiniteSets

VARIABLE x

U32s == {<<0, 0, 0, 0>>, <<1, 0, 0, 0>>, <<0, 0, 0, 128>>, <<255, 255, 255, 255>>, <<120, 86, 52, 18>>}
U32few == {<<0, 0, 0, 0>>, <<255, 255, 255, 255>>, <<120, 86, 52, 18>>}
Timeouts == {<<0, 0, 0, 0, 0, 0, 0, 0>>, <<1, 0, 0, 0, 0, 0, 0, 0>>, <<96, 234, 0, 0, 0, 0, 0, 0>>, <<255, 255, 255, 255, 255, 255, 255, 255>>}
Chunks == {<<4, 0, 0, 0>>, <<0, 64, 0, 0>>, <<255, 255, 255, 255>>}
RBufs == {<<4, 0, 0, 0>>, <<0, 0, 8, 0>>, <<255, 255, 255, 255>>}
CQs == {<<1, 0>>, <<128, 0>>, <<255, 255>>}
PortLists == {<<>>, <<<<7, 0, 0, 0>>>>, <<<<1, 2, 3, 4>>, <<255, 255, 255, 255>>>>, <<<<0, 0, 0, 0>>, <<9, 9, 9, 9>>, <<120, 86, 52, 18>>>>}
IdsFor(ps) == [i \in 1..Len(ps) |-> <<100 + i, 0, 1, 0>>]

Valid ==
    {[k |-> "Reset"], [k |-> "Ping"], [k |-> "ClientFinish"], [k |-> "ListenerFinish"], [k |-> "Goodbye"]}
    \cup {[k |-> "Hello", version |-> v, timeout |-> t, chunk |-> c, rbuf |-> r, cq |-> q] :
            v \in {2, 3, 255}, t \in Timeouts, c \in Chunks, r \in RBufs, q \in CQs}
    \cup {[k |-> "OpenPort", client |-> p, wait |-> w, hasId |-> h, id |-> IF h THEN i ELSE <<>>] :
            p \in U32s, w \in BOOLEAN, h \in BOOLEAN, i \in U32few}
    \cup {[k |-> "PortOpened", client |-> p, server |-> s] : p \in U32s, s \in U32s}
    \cup {[k |-> "Rejected", client |-> p, noPorts |-> n] : p \in U32s, n \in BOOLEAN}
    \cup {[k |-> "Data", port |-> p, first |-> f, last |-> l] : p \in U32s, f \in BOOLEAN, l \in BOOLEAN}
    \cup {[k |-> "PortData", port |-> p, first |-> f, last |-> l, wait |-> w, hasIds |-> h, ports |-> ps, ids |-> IF h THEN IdsFor(ps) ELSE <<>>] :
            p \in U32few, f \in BOOLEAN, l \in BOOLEAN, w \in BOOLEAN, h \in BOOLEAN, ps \in PortLists}
    \cup {[k |-> "PortCredits", port |-> p, credits |-> c] : p \in U32s, c \in U32s}
    \cup {[k |-> kk, port |-> p] : kk \in {"SendFinish", "ReceiveClose", "ReceiveFinish"}, p \in U32s}

\* one representative per kind for the malformed variants
Reps == {m \in Valid : \/ m.k \in {"Reset", "Ping", "ClientFinish", "ListenerFinish", "Goodbye"}
                       \/ (m.k = "Hello" /\ m.version = 3 /\ m.timeout[1] = 96 /\ m.chunk[2] = 64 /\ m.rbuf[3] = 8 /\ m.cq[1] = 128)
                       \/ (m.k = "OpenPort" /\ m.client[1] = 120 /\ m.wait /\ (m.hasId => m.id[1] = 120))
                       \/ (m.k = "PortOpened" /\ m.client[1] = 120 /\ m.server[1] = 1)
                       \/ (m.k = "Rejected" /\ m.client[1] = 120 /\ m.noPorts)
                       \/ (m.k = "Data" /\ m.port[1] = 120 /\ m.first /\ ~m.last)
                       \/ (m.k = "PortData" /\ m.port[1] = 120 /\ m.first /\ m.last /\ ~m.wait /\ Len(m.ports) = 2)
                       \/ (m.k = "PortCredits" /\ m.port[1] = 120 /\ m.credits[1] = 1)
                       \/ (m.k \in {"SendFinish", "ReceiveClose", "ReceiveFinish"} /\ m.port[1] = 120)}
Prefixes(b) == {SubSeq(b, 1, n) : n \in 0..Len(b)}
Malformed ==
    UNION {Prefixes(Enc(m)) : m \in Reps}
    \cup {Enc(m) \o <<171>> : m \in Reps}
    \cup {<<c>> \o Tail(Enc(m)) : c \in {0, 16, 200, 255}, m \in {r \in Reps : r.k \in {"Reset", "PortOpened"}}}
    \* unused flag bits set
    \cup {[Enc(m) EXCEPT ![6] = @ + 240] : m \in {r \in Reps : r.k \in {"OpenPort", "Rejected", "Data", "PortData"}}}
    \* invalid exchanged configuration and bad magic
    \cup {Enc([k |-> "Hello", version |-> 3, timeout |-> <<0, 0, 0, 0, 0, 0, 0, 0>>, chunk |-> c, rbuf |-> r, cq |-> q]) :
            c \in {<<3, 0, 0, 0>>, <<4, 0, 0, 0>>}, r \in {<<0, 0, 0, 0>>, <<4, 0, 0, 0>>}, q \in {<<0, 0>>, <<1, 0>>}}
    \cup {[Enc(CHOOSE m \in Reps : m.k = "Hello") EXCEPT ![3] = 0]}

EmitValid == \A m \in Valid : PrintT(ToJson([t |-> "valid", m |-> m, b |-> Enc(m), rt |-> (Dec(Enc(m)) = m)]))
EmitMal == \A b \in Malformed : PrintT(ToJson([t |-> "bytes", b |-> b, d |-> Dec(b)]))

\* the specification's own consistency: Dec is a left inverse of Enc on the whole table
RoundTrip == \A m \in Valid : Dec(Enc(m)) = m
Init == x = 0 /\ EmitValid /\ EmitMal
Next == x' = x
Spec == Init /\ [][Next]_x
Counts == Cardinality(Valid) > 100 /\ Cardinality(Malformed) > 50
=============================================================================
