------------------------------ MODULE WiringFwd ------------------------------
(***************************************************************************)
(* Port requests travelling through forwarding endpoints (C05, "forwarding *)
(* preserves ids and relays accept/reject").  A channel is forwarded over  *)
(* F intermediate endpoints; a value with halves 1..N is sent through it.  *)
(* The data message carries, for every half, the request id chosen by the  *)
(* origin (remoc uses the origin's local port number).  The port-request   *)
(* batch <<port, id>> is re-issued by every forwarder with a fresh port of *)
(* its own; the id must travel unchanged, because the final receiver       *)
(* matches the ids of the batch against the ids in the data message.  A    *)
(* forwarder may reject a request (no ports left); the rejection is        *)
(* relayed back so that both ends fail.                                    *)
(* Deviation IdFromPort: a forwarder re-issues the request with the id set *)
(* to the port number it received (seeded change C05_m1) - invisible with  *)
(* one forwarder, because at the origin id = port.                         *)
(***************************************************************************)
EXTENDS Integers, Sequences, FiniteSets, TLC
CONSTANTS N, F, IdFromPort
Halves == 1..N
VARIABLES hop,       \* the batch has passed this many forwarders
          req,       \* half -> [port, id] as currently travelling, or rejected
          rejectedAt,\* half -> forwarder that rejected it (0 = none)
          stage,     \* "travel" | "arrived"
          connected, \* halves connected at the final receiver
          failed     \* halves whose ends observed a failure
vars == <<hop, req, rejectedAt, stage, connected, failed>>
OriginPort(h) == 100 + h
FwdPort(k, h) == 1000 * k + h
Init == /\ hop = 0 /\ req = [h \in Halves |-> [port |-> OriginPort(h), id |-> OriginPort(h)]]
        /\ rejectedAt = [h \in Halves |-> 0] /\ stage = "travel" /\ connected = {} /\ failed = {}
\* forwarder hop+1 re-issues every request it can; it may run out of ports for some
Forward == /\ stage = "travel" /\ hop < F
           /\ \E rej \in SUBSET {h \in Halves : rejectedAt[h] = 0} :
                /\ rejectedAt' = [h \in Halves |-> IF h \in rej THEN hop + 1 ELSE rejectedAt[h]]
                /\ req' = [h \in Halves |-> IF h \in rej \/ rejectedAt[h] # 0 THEN req[h]
                                            ELSE [port |-> FwdPort(hop + 1, h), id |-> IF IdFromPort THEN req[h].port ELSE req[h].id]]
           /\ hop' = hop + 1 /\ UNCHANGED <<stage, connected, failed>>
\* the final receiver matches the ids of the batch with the ids of the data message (the origin's)
Arrive == /\ stage = "travel" /\ hop = F /\ stage' = "arrived"
          /\ connected' = {h \in Halves : rejectedAt[h] = 0 /\ req[h].id = OriginPort(h)}
          /\ failed' = Halves \ {h \in Halves : rejectedAt[h] = 0 /\ req[h].id = OriginPort(h)}
          /\ UNCHANGED <<hop, req, rejectedAt>>
Next == Forward \/ Arrive
Spec == Init /\ [][Next]_vars
\* a half is connected to its own counterpart or fails - and it fails only if some forwarder really rejected it
C05_ConnectedUnlessRejected == stage = "arrived" => \A h \in Halves : (h \in connected) <=> rejectedAt[h] = 0
C05_Partition == stage = "arrived" => connected \cap failed = {} /\ connected \cup failed = Halves
=============================================================================
