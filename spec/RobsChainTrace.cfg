SPECIFICATION Spec
INVARIANTS Inv_C13 Inv_TOOL
POSTCONDITION Accepted
CHECK_DEADLOCK FALSE
