---------------------------- MODULE RobsErrTrace ----------------------------
(***************************************************************************)
(* Trace specification for C14: a mirror and a hand consumer of an         *)
(* observed collection under lag, early drop, size limit and connection    *)
(* cut; append-only list subscribers.  hist is the sequence of states of   *)
(* the observed collection (Robs.tla representation).  Whatever a complete *)
(* mirror shows must be an element of hist, at or after the element it     *)
(* showed before; it may stop following hist only by reporting an error of *)
(* the kind that matches what happened, the error is sticky and detach     *)
(* still returns an element of hist.  The hand consumer folds the events   *)
(* with Robs!ApplyEvent under the same rule.                               *)
(***************************************************************************)
EXTENDS Robs, TLC, Json, IOUtils
Rec == ndJsonDeserialize(IOEnv.TRACE)
VARIABLES l, cfg, hist, mIdx, mSt, fold, cIdx, cComplete, isDone, dropped, cut, lst, mexp, bad
vars == <<l, cfg, hist, mIdx, mSt, fold, cIdx, cComplete, isDone, dropped, cut, lst, mexp, bad>>
Ev == Rec[l]
Checked(p) == IOEnv.CHECK = "ALL" \/ p = IOEnv.CHECK \/ p = "TOOL"
Flag(p, why) == IF bad = <<>> /\ Checked(p) /\ PrintT("VIOLATION property=" \o p \o " line=" \o ToString(l) \o " reason=" \o why) THEN <<p, why, l>> ELSE bad
RECURSIVE FirstOf(_)
FirstOf(cs) == IF cs = <<>> THEN bad ELSE IF cs[1][1] THEN Flag("C14", cs[1][2]) ELSE FirstOf(Tail(cs))
Is(e) == l <= Len(Rec) /\ Ev.ev = e /\ l' = l + 1
Keyed(k) == k \in {"map", "set"}
FromJson(k, c) == IF Keyed(k) THEN [x \in {c[j][1] : j \in 1..Len(c)} |-> (CHOOSE j \in 1..Len(c) : c[j][1] = x)] ELSE c
Value(k, c) == IF Keyed(k) THEN LET idx == FromJson(k, c) IN [x \in DOMAIN idx |-> c[idx[x]][2]] ELSE c
EvOf(e) == IF "idx" \in DOMAIN e THEN [e EXCEPT !.idx = {e.idx[j] : j \in 1..Len(e.idx)}] ELSE e
kind == cfg.coll
\* least index >= from at which hist holds v, 0 if none
Find(v, from) == LET S == {j \in from..Len(hist) : hist[j] = v} IN IF S = {} THEN 0 ELSE CHOOSE j \in S : \A k \in S : j <= k
Last == hist[Len(hist)]
\* error kinds that match what happened in the scenario
Allowed(k) == CASE cfg.case = "lag" -> k = "Lagged"
                [] cfg.case = "drop" -> k = "Closed"
                [] cfg.case = "max_size" -> k = "MaxSizeExceeded"
                [] cfg.case = "cut" -> k \in {"RemoteReceive", "RemoteConnect", "RemoteListen", "Closed"}
                [] OTHER -> FALSE
Init == /\ l = 1 /\ cfg = [coll |-> "vec", case |-> "plain"] /\ hist = <<>> /\ mIdx = 1 /\ mSt = "run" /\ fold = <<>> /\ cIdx = 1 /\ cComplete = FALSE
        /\ isDone = FALSE /\ dropped = FALSE /\ cut = FALSE /\ lst = [pushed |-> 0, n |-> <<>>] /\ mexp = [on |-> FALSE, st |-> <<>>, broken |-> FALSE, h |-> <<>>] /\ bad = <<>>
Reset == /\ Is("reset") /\ cfg' = [coll |-> Ev.coll, case |-> Ev.case] /\ hist' = <<>> /\ mIdx' = 1 /\ mSt' = "run" /\ fold' = <<>> /\ cIdx' = 1
         /\ cComplete' = FALSE /\ isDone' = FALSE /\ dropped' = FALSE /\ cut' = FALSE /\ lst' = [pushed |-> 0, n |-> <<>>]
         /\ mexp' = [on |-> FALSE, st |-> <<>>, broken |-> FALSE, h |-> <<>>] /\ bad' = bad
State == /\ Is("e_state") /\ hist' = Append(hist, Value(kind, Ev.obs))
         /\ UNCHANGED <<cfg, mIdx, mSt, fold, cIdx, cComplete, isDone, dropped, cut, lst, mexp, bad>>
Sub == /\ Is("e_sub") /\ cComplete' = Ev.has_initial /\ cIdx' = Len(hist) /\ mIdx' = Len(hist)
       /\ fold' = IF Ev.has_initial THEN Value(kind, Ev.initial) ELSE (IF Keyed(kind) THEN Empty ELSE <<>>)
       /\ bad' = FirstOf(<< <<Ev.has_initial /\ Value(kind, Ev.initial) # Last, "snapshot of a subscription differs from the collection">> >>)
       /\ UNCHANGED <<cfg, hist, mSt, isDone, dropped, cut, lst, mexp>>
\* ---- "an event does not apply": the mirror starts empty (its snapshot was taken away); what it must show is the fold of
\* the events Robs!Emits derives from the logged operations, up to the first event that does not apply
Stripped == /\ Is("e_sub_stripped") /\ mexp' = [on |-> TRUE, st |-> <<>>, broken |-> FALSE, h |-> << <<>> >>]
            /\ UNCHANGED <<cfg, hist, mIdx, mSt, fold, cIdx, cComplete, isDone, dropped, cut, lst, bad>>
RECURSIVE FoldOK(_, _, _)
\* <<state, broken>> after applying the events es to st
FoldOK(st, es, broken) == IF es = <<>> \/ broken THEN <<st, broken>>
                          ELSE IF SeqEventOK(st, es[1]) THEN FoldOK(SeqApplyEvent(st, es[1]), Tail(es), FALSE) ELSE <<st, TRUE>>
OpEv == /\ Is("e_op")
        /\ LET evs == SeqEmits(kind, Last, Ev.op)
               r == FoldOK(mexp.st, evs, mexp.broken) IN
           mexp' = [mexp EXCEPT !.st = r[1], !.broken = r[2], !.h = IF r[2] THEN mexp.h ELSE Append(mexp.h, r[1])]
        /\ UNCHANGED <<cfg, hist, mIdx, mSt, fold, cIdx, cComplete, isDone, dropped, cut, lst, bad>>
MirrorStripped == /\ Is("e_mirror") /\ mexp.on
                  /\ mSt' = IF Ev.done THEN "done" ELSE mSt
                  /\ LET v == Ev.contents IN
                     bad' = FirstOf(<<
                          <<mexp.broken, "mirror went on presenting contents after an event that does not apply to it (no InvalidIndex reported)">>,
                          <<~mexp.broken /\ v # mexp.st, "mirror built from the events differs from what the events give">> >>)
                  /\ UNCHANGED <<cfg, hist, mIdx, fold, cIdx, cComplete, isDone, dropped, cut, lst, mexp>>
MirrorErrStripped == /\ Is("e_mirror_err") /\ mexp.on /\ mSt' = "err"
                     /\ bad' = FirstOf(<<
                          <<~mexp.broken, "mirror reports an error although every event applied to it">>,
                          <<Ev.kind # "InvalidIndex", "mirror reports " \o Ev.kind \o " for an event that does not apply (expected InvalidIndex)">> >>)
                     /\ UNCHANGED <<cfg, hist, mIdx, fold, cIdx, cComplete, isDone, dropped, cut, lst, mexp>>
DetachStripped == /\ Is("e_detach") /\ mexp.on
                  /\ bad' = FirstOf(<< <<Ev.contents # mexp.st, "contents retrievable from the mirror are not its last consistent contents">> >>)
                  /\ UNCHANGED <<cfg, hist, mIdx, mSt, fold, cIdx, cComplete, isDone, dropped, cut, lst, mexp>>
Mirror == /\ Is("e_mirror") /\ ~mexp.on
          /\ LET v == Value(kind, Ev.contents)  j == Find(v, mIdx) IN
             /\ mIdx' = IF Ev.complete /\ j > 0 THEN j ELSE mIdx
             /\ mSt' = IF Ev.done THEN "done" ELSE mSt
             /\ bad' = FirstOf(<<
                  <<Ev.complete /\ j = 0, "mirror shows contents that are not a state the collection was in since the mirror's previous view">>,
                  <<Ev.done /\ ~isDone, "mirror reports done although the collection was not marked done">>,
                  <<Ev.done /\ v # Last, "mirror reports done with contents that differ from the final collection (silent divergence)">>,
                  <<mSt = "err", "mirror presents contents after it reported an error">> >>)
          /\ UNCHANGED <<cfg, hist, fold, cIdx, cComplete, isDone, dropped, cut, lst, mexp>>
MirrorErr == /\ Is("e_mirror_err") /\ ~mexp.on /\ mSt' = "err"
             /\ bad' = FirstOf(<< <<~Allowed(Ev.kind), "mirror reports an error of a kind that nothing in the scenario explains: " \o Ev.kind>> >>)
             /\ UNCHANGED <<cfg, hist, mIdx, fold, cIdx, cComplete, isDone, dropped, cut, lst, mexp>>
MirrorAgain == /\ Is("e_mirror_again")
               /\ bad' = FirstOf(<< <<~Ev.err, "mirror stopped reporting its error (presents contents again)">> >>)
               /\ UNCHANGED <<cfg, hist, mIdx, mSt, fold, cIdx, cComplete, isDone, dropped, cut, lst, mexp>>
Detach == /\ Is("e_detach") /\ ~mexp.on
          /\ LET v == Value(kind, Ev.contents) IN
             bad' = FirstOf(<<
                  <<mSt = "done" /\ v # Last, "detached contents of a finished mirror differ from the final collection">>,
                  <<mSt = "err" /\ mIdx > 1 /\ Find(v, mIdx) = 0 /\ Find(v, 1) = 0, "contents retrievable after an error are not a state the collection was in">> >>)
          /\ UNCHANGED <<cfg, hist, mIdx, mSt, fold, cIdx, cComplete, isDone, dropped, cut, lst, mexp>>
ConsEv == /\ Is("e_ev")
          /\ LET e == EvOf(Ev.e)
                 ok == EventOK(kind, fold, e)
                 f1 == IF ok THEN ApplyEvent(kind, fold, e) ELSE fold
                 compl == cComplete \/ e.e = "InitialComplete"
                 j == Find(f1, cIdx) IN
             /\ fold' = f1 /\ cComplete' = compl
             /\ cIdx' = IF compl /\ j > 0 THEN j ELSE cIdx
             /\ bad' = FirstOf(<<
                  <<~ok, "received event does not apply to the contents built from the events so far">>,
                  <<compl /\ j = 0, "consuming the events gives contents the collection was never in (event skipped without an error)">> >>)
          /\ UNCHANGED <<cfg, hist, mIdx, mSt, isDone, dropped, cut, lst, mexp>>
ConsEnd == /\ Is("e_ev_end")
           /\ bad' = FirstOf(<<
                <<~isDone, "event stream ended although the collection was not marked done">>,
                <<fold # Last, "event stream ended normally but the contents built from it differ from the final collection (silent divergence)">> >>)
           /\ UNCHANGED <<cfg, hist, mIdx, mSt, fold, cIdx, cComplete, isDone, dropped, cut, lst, mexp>>
ConsErr == /\ Is("e_ev_err")
           /\ bad' = FirstOf(<< <<~Allowed(Ev.kind), "subscription reports an error of a kind that nothing in the scenario explains: " \o Ev.kind>> >>)
           /\ UNCHANGED <<cfg, hist, mIdx, mSt, fold, cIdx, cComplete, isDone, dropped, cut, lst, mexp>>
Done == /\ Is("e_done") /\ isDone' = TRUE /\ UNCHANGED <<cfg, hist, mIdx, mSt, fold, cIdx, cComplete, dropped, cut, lst, mexp, bad>>
Drop == /\ Is("e_drop") /\ dropped' = TRUE /\ UNCHANGED <<cfg, hist, mIdx, mSt, fold, cIdx, cComplete, isDone, cut, lst, mexp, bad>>
Fault == /\ Is("fault") /\ cut' = TRUE /\ UNCHANGED <<cfg, hist, mIdx, mSt, fold, cIdx, cComplete, isDone, dropped, lst, mexp, bad>>
End == /\ Is("e_end")
       /\ bad' = FirstOf(<<
            <<Ev.pending > 0, "mirror or subscriber neither finished nor failed (hang)">>,
            <<"skipped" \notin DOMAIN Ev /\ mSt = "run", "harness: mirror observer ended without a verdict">> >>)
       /\ UNCHANGED <<cfg, hist, mIdx, mSt, fold, cIdx, cComplete, isDone, dropped, cut, lst, mexp>>
\* ---- append-only list
Cnt(s) == IF s \in DOMAIN lst.n THEN lst.n[s] ELSE 0
LPush == /\ Is("l_push") /\ lst' = [lst EXCEPT !.pushed = Ev.v] /\ UNCHANGED <<cfg, hist, mIdx, mSt, fold, cIdx, cComplete, isDone, dropped, cut, mexp, bad>>
LRecv == /\ Is("l_recv")
         /\ lst' = [lst EXCEPT !.n = IF Ev.sub \in DOMAIN lst.n THEN [lst.n EXCEPT ![Ev.sub] = @ + 1] ELSE lst.n @@ (Ev.sub :> 1)]
         /\ bad' = FirstOf(<<
              <<Ev.v # Cnt(Ev.sub) + 1, "list subscriber received an element out of order, twice, or skipped one">>,
              <<Ev.v > lst.pushed, "list subscriber received an element that was never pushed">> >>)
         /\ UNCHANGED <<cfg, hist, mIdx, mSt, fold, cIdx, cComplete, isDone, dropped, cut, mexp>>
LDone == /\ Is("l_done") /\ isDone' = TRUE /\ UNCHANGED <<cfg, hist, mIdx, mSt, fold, cIdx, cComplete, dropped, cut, lst, mexp, bad>>
LDrop == /\ Is("l_drop") /\ dropped' = TRUE /\ UNCHANGED <<cfg, hist, mIdx, mSt, fold, cIdx, cComplete, isDone, cut, lst, mexp, bad>>
LEnd == /\ Is("l_end")
        /\ bad' = FirstOf(<<
             <<Ev.how = "Lagged", "append-only list subscriber lagged">>,
             <<Ev.how = "none" /\ (~isDone \/ Cnt(Ev.sub) # lst.pushed), "list subscription ended normally without all elements">>,
             <<Ev.how = "Closed" /\ ~dropped, "list subscription failed although the list was not dropped">>,
             <<Ev.how \notin {"none", "Closed", "Lagged"}, "list subscription failed: " \o Ev.how>> >>)
        /\ UNCHANGED <<cfg, hist, mIdx, mSt, fold, cIdx, cComplete, isDone, dropped, cut, lst, mexp>>
LFin == /\ Is("l_fin")
        /\ bad' = FirstOf(<< <<Ev.pending > 0, "list subscribers neither finished nor failed (hang)">> >>)
        /\ UNCHANGED <<cfg, hist, mIdx, mSt, fold, cIdx, cComplete, isDone, dropped, cut, lst, mexp>>
Known == {"e_sub_stripped", "e_op", "reset", "e_state", "e_sub", "e_mirror", "e_mirror_err", "e_mirror_again", "e_detach", "e_ev", "e_ev_end", "e_ev_err", "e_done", "e_drop",
          "fault", "e_end", "l_push", "l_recv", "l_done", "l_drop", "l_end", "l_fin"}
Skip == /\ l <= Len(Rec) /\ Ev.ev \notin Known /\ l' = l + 1 /\ UNCHANGED <<cfg, hist, mIdx, mSt, fold, cIdx, cComplete, isDone, dropped, cut, lst, mexp, bad>>
Next == Stripped \/ OpEv \/ MirrorStripped \/ MirrorErrStripped \/ DetachStripped \/ Reset \/ State \/ Sub \/ Mirror \/ MirrorErr \/ MirrorAgain \/ Detach \/ ConsEv \/ ConsEnd \/ ConsErr \/ Done \/ Drop \/ Fault \/ End
        \/ LPush \/ LRecv \/ LDone \/ LDrop \/ LEnd \/ LFin \/ Skip
Spec == Init /\ [][Next]_vars
Inv_C14 == bad = <<>> \/ bad[1] # "C14"
Inv_TOOL == bad = <<>> \/ bad[1] # "TOOL"
Accepted == IF TLCGet("stats").diameter - 1 = Len(Rec) THEN TRUE
            ELSE Print(<<"TRACE NOT CONSUMED", TLCGet("stats").diameter - 1, Len(Rec)>>, FALSE)
=============================================================================
