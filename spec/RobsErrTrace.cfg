SPECIFICATION Spec
INVARIANTS Inv_C14 Inv_TOOL
POSTCONDITION Accepted
CHECK_DEADLOCK FALSE
