------------------------------- MODULE Robs -------------------------------
(***************************************************************************)
(* Reference semantics of remoc's observable collections (C13, C14):       *)
(*   Apply(kind, s, op)    contents after a mutating operation             *)
(*   ApplyEvent(kind, m, e) what an event means to a consumer / mirror     *)
(*   Emits(kind, s, op)    the events the operation is specified to emit   *)
(* for kind in {"vec", "deque", "map", "set", "list"}.  Vectors, deques    *)
(* and lists are sequences; maps are functions key -> value; sets hold     *)
(* elements <<key, payload>> whose identity (Eq/Hash) is the key only, as  *)
(* a function key -> payload.  Indices in operations and events are        *)
(* 0-based as in the API.  The theorem checked by TLC on RobsMC is         *)
(*   Fold(ApplyEvent, s, Emits(s, op)) = Apply(s, op)                      *)
(* for every state and operation of the bounded domain: a mirror that      *)
(* processes the specified events holds exactly the collection.            *)
(***************************************************************************)
EXTENDS Integers, Sequences, FiniteSets

Min(a, b) == IF a < b THEN a ELSE b
\* ---- sequence helpers (i is 0-based)
SetAt(s, i, v) == [s EXCEPT ![i + 1] = v]
InsAt(s, i, v) == SubSeq(s, 1, i) \o <<v>> \o SubSeq(s, i + 1, Len(s))
DelAt(s, i) == SubSeq(s, 1, i) \o SubSeq(s, i + 2, Len(s))
Front(s) == SubSeq(s, 1, Len(s) - 1)
Keep(s, idx) == LET F[j \in 0..Len(s)] == IF j = 0 THEN <<>> ELSE IF (j - 1) \in idx THEN Append(F[j - 1], s[j]) ELSE F[j - 1] IN F[Len(s)]
Resize(s, n, v) == IF n <= Len(s) THEN SubSeq(s, 1, n) ELSE s \o [j \in 1..(n - Len(s)) |-> v]
IdxWhere(s, P(_)) == {j - 1 : j \in {x \in 1..Len(s) : P(s[x])}}
\* ---- function helpers
Without(f, k) == [x \in DOMAIN f \ {k} |-> f[x]]
With(f, k, v) == [x \in DOMAIN f \cup {k} |-> IF x = k THEN v ELSE f[x]]
Empty == [x \in {} |-> 0]

\* ------------------------------------------------------------------ operations
SeqApply(kind, s, op) ==
    LET n == Len(s) IN
    CASE op.o \in {"push", "push_back"} -> Append(s, op.v)
      [] op.o = "push_front" -> <<op.v>> \o s
      [] op.o \in {"pop", "pop_back"} -> IF n = 0 THEN s ELSE Front(s)
      [] op.o = "pop_front" -> IF n = 0 THEN s ELSE Tail(s)
      [] op.o = "set" -> IF op.i < n THEN SetAt(s, op.i, op.v) ELSE s          \* get_mut(i) and write
      [] op.o = "iter_set" -> [j \in 1..n |-> op.v]                              \* iter_mut writing every element
      [] op.o = "insert" -> InsAt(s, op.i, op.v)
      [] op.o = "remove" -> IF op.i < n THEN DelAt(s, op.i) ELSE s
      [] op.o \in {"swap_remove", "swap_remove_back"} -> IF op.i < n THEN Front(SetAt(s, op.i, s[n])) ELSE s
      [] op.o = "swap_remove_front" -> IF op.i < n THEN Tail(SetAt(s, op.i, s[1])) ELSE s
      [] op.o = "fill" -> [j \in 1..n |-> op.v]
      [] op.o = "resize" -> Resize(s, op.n, op.v)
      [] op.o = "truncate" -> IF op.n < n THEN SubSeq(s, 1, op.n) ELSE s
      [] op.o = "clear" -> <<>>
      [] op.o = "retain_ne" -> SelectSeq(s, LAMBDA x : x # op.v)                  \* retain(|x| x != v)
      [] op.o = "retain_none" -> <<>>
      [] op.o \in {"retain_all", "shrink", "done"} -> s

MapApply(m, op) ==
    CASE op.o \in {"insert", "entry_insert", "get_mut_set"} ->
            IF op.o = "get_mut_set" /\ op.k \notin DOMAIN m THEN m ELSE With(m, op.k, op.v)
      [] op.o = "or_insert" -> IF op.k \in DOMAIN m THEN m ELSE With(m, op.k, op.v)           \* entry(k).or_insert(v)
      [] op.o = "and_modify_or_insert" -> With(m, op.k, op.v)                                   \* entry(k).and_modify(|x| *x = v).or_insert(v)
      [] op.o \in {"remove", "entry_remove"} -> IF op.k \in DOMAIN m THEN Without(m, op.k) ELSE m
      [] op.o = "iter_set" -> [k \in DOMAIN m |-> op.v]
      [] op.o = "clear" -> Empty
      [] op.o = "retain_ne" -> [k \in {x \in DOMAIN m : m[x] # op.v} |-> m[k]]
      [] op.o = "retain_none" -> Empty
      [] op.o = "retain_mut" -> [k \in DOMAIN m |-> op.v]                                       \* retain(|_, x| { *x = v; true })
      [] op.o \in {"retain_all", "shrink", "done"} -> m

SetApply(m, op) ==
    CASE op.o = "insert" -> IF op.k \in DOMAIN m THEN m ELSE With(m, op.k, op.v)      \* std insert keeps an equal element
      [] op.o = "replace" -> With(m, op.k, op.v)
      [] op.o \in {"remove", "take"} -> IF op.k \in DOMAIN m THEN Without(m, op.k) ELSE m
      [] op.o = "clear" -> Empty
      [] op.o = "retain_ne" -> [k \in {x \in DOMAIN m : x # op.k} |-> m[k]]
      [] op.o = "retain_none" -> Empty
      [] op.o \in {"retain_all", "shrink", "done"} -> m

Apply(kind, s, op) == CASE kind \in {"vec", "deque", "list"} -> SeqApply(kind, s, op)
                         [] kind = "map" -> MapApply(s, op)
                         [] kind = "set" -> SetApply(s, op)

\* ------------------------------------------------------------------ events
SeqApplyEvent(s, e) ==
    LET n == Len(s) IN
    CASE e.e \in {"Push", "PushBack"} -> Append(s, e.v)
      [] e.e = "PushFront" -> <<e.v>> \o s
      [] e.e \in {"Pop", "PopBack"} -> IF n = 0 THEN s ELSE Front(s)
      [] e.e = "PopFront" -> IF n = 0 THEN s ELSE Tail(s)
      [] e.e = "Insert" -> InsAt(s, e.i, e.v)
      [] e.e = "Set" -> SetAt(s, e.i, e.v)
      [] e.e = "Remove" -> DelAt(s, e.i)
      [] e.e \in {"SwapRemove", "SwapRemoveBack"} -> Front(SetAt(s, e.i, s[n]))
      [] e.e = "SwapRemoveFront" -> Tail(SetAt(s, e.i, s[1]))
      [] e.e = "Fill" -> [j \in 1..n |-> e.v]
      [] e.e = "Resize" -> Resize(s, e.n, e.v)
      [] e.e = "Truncate" -> SubSeq(s, 1, Min(e.n, n))
      [] e.e = "Retain" -> Keep(s, e.idx)
      [] e.e = "RetainNot" -> Keep(s, (0..(n - 1)) \ e.idx)
      [] e.e = "Clear" -> <<>>
      [] e.e \in {"ShrinkToFit", "Done", "InitialComplete"} -> s
\* an event applies only if its index is valid (the mirror reports InvalidIndex otherwise)
SeqEventOK(s, e) ==
    CASE e.e = "Insert" -> e.i <= Len(s)
      [] e.e \in {"Set", "Remove", "SwapRemove", "SwapRemoveBack", "SwapRemoveFront"} -> e.i < Len(s)
      [] OTHER -> TRUE

KeyedApplyEvent(m, e) ==
    CASE e.e = "Set" -> With(m, e.k, e.v)
      [] e.e = "Remove" -> IF e.k \in DOMAIN m THEN Without(m, e.k) ELSE m
      [] e.e = "Clear" -> Empty
      [] e.e \in {"ShrinkToFit", "Done", "InitialComplete"} -> m

ApplyEvent(kind, s, e) == IF kind \in {"vec", "deque", "list"} THEN SeqApplyEvent(s, e) ELSE KeyedApplyEvent(s, e)
EventOK(kind, s, e) == IF kind \in {"vec", "deque", "list"} THEN SeqEventOK(s, e) ELSE TRUE
Fold(kind, s, es) == LET F[j \in 0..Len(es)] == IF j = 0 THEN s ELSE ApplyEvent(kind, F[j - 1], es[j]) IN F[Len(es)]

\* ------------------------------------------------------------------ events an operation is specified to emit
Ev1(name) == <<[e |-> name]>>
SeqEmits(kind, s, op) ==
    LET n == Len(s)  back == IF kind = "deque" THEN "Back" ELSE "" IN
    CASE op.o = "push" -> <<[e |-> "Push", v |-> op.v]>>
      [] op.o = "push_back" -> <<[e |-> "PushBack", v |-> op.v]>>
      [] op.o = "push_front" -> <<[e |-> "PushFront", v |-> op.v]>>
      [] op.o = "pop" -> IF n = 0 THEN <<>> ELSE Ev1("Pop")
      [] op.o = "pop_back" -> IF n = 0 THEN <<>> ELSE Ev1("PopBack")
      [] op.o = "pop_front" -> IF n = 0 THEN <<>> ELSE Ev1("PopFront")
      [] op.o = "set" -> IF op.i < n THEN <<[e |-> "Set", i |-> op.i, v |-> op.v]>> ELSE <<>>
      [] op.o = "iter_set" -> [j \in 1..n |-> [e |-> "Set", i |-> j - 1, v |-> op.v]]
      [] op.o = "insert" -> <<[e |-> "Insert", i |-> op.i, v |-> op.v]>>
      [] op.o = "remove" -> IF op.i < n THEN <<[e |-> "Remove", i |-> op.i]>> ELSE <<>>
      [] op.o = "swap_remove" -> <<[e |-> "SwapRemove", i |-> op.i]>>
      [] op.o = "swap_remove_back" -> IF op.i < n THEN <<[e |-> "SwapRemoveBack", i |-> op.i]>> ELSE <<>>
      [] op.o = "swap_remove_front" -> IF op.i < n THEN <<[e |-> "SwapRemoveFront", i |-> op.i]>> ELSE <<>>
      [] op.o = "fill" -> <<[e |-> "Fill", v |-> op.v]>>
      [] op.o = "resize" -> IF op.n # n THEN <<[e |-> "Resize", n |-> op.n, v |-> op.v]>> ELSE <<>>
      [] op.o = "truncate" -> IF op.n < n THEN <<[e |-> "Truncate", n |-> op.n]>> ELSE <<>>
      [] op.o = "clear" -> IF n = 0 THEN <<>> ELSE Ev1("Clear")
      [] op.o \in {"retain_ne", "retain_none", "retain_all"} ->
            LET keep == CASE op.o = "retain_ne" -> IdxWhere(s, LAMBDA x : x # op.v) [] op.o = "retain_none" -> {} [] OTHER -> 0..(n - 1)
                rem == (0..(n - 1)) \ keep IN
            IF rem = {} THEN <<>>
            ELSE IF Cardinality(keep) < Cardinality(rem) THEN <<[e |-> "Retain", idx |-> keep]>> ELSE <<[e |-> "RetainNot", idx |-> rem]>>
      [] op.o = "shrink" -> Ev1("ShrinkToFit")
      [] op.o = "done" -> Ev1("Done")
=============================================================================
