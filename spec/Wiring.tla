------------------------------- MODULE Wiring -------------------------------
(***************************************************************************)
(* Wiring of channel halves embedded in a value (C05).  Sending a value    *)
(* with halves 1..N over a channel is: one data message (the value, in     *)
(* which every half is replaced by its request id) followed by one batch   *)
(* of port requests <<port, id>> on the same port (FIFO).  The receiver    *)
(* deserializes the value - every half registers a callback under its id   *)
(* - and then matches the requests of the batch to the callbacks by id.    *)
(* A request may be rejected (no ports left) or the batch may be lost with *)
(* the connection; then both ends of that channel observe a failure.  The  *)
(* value may be forwarded over Hops connections: every hop repeats the     *)
(* procedure with fresh ports, the ids of the inner channels are local to  *)
(* each hop.  ByPosition = TRUE is the deviation in which requests are     *)
(* matched to callbacks by their position in the batch.                    *)
(***************************************************************************)
EXTENDS Integers, Sequences, FiniteSets, TLC
CONSTANTS N, ByPosition
Halves == 1..N
VARIABLES stage,      \* "init" | "sent" | "deser" | "wired"
          batch,      \* sequence of <<port, id>> as transmitted (order chosen by the sender)
          callbacks,  \* sequence of ids in the order the receiver's deserializer met the halves
          rejected,   \* set of ports the receiver could not accept (exhausted)
          lost,       \* the batch was lost with the connection
          peer,       \* half -> port it got connected to (0 = none)
          failedR,    \* halves whose receiving end observed a failure
          failedS     \* ports whose sending end observed a failure
vars == <<stage, batch, callbacks, rejected, lost, peer, failedR, failedS>>
PortOf(h) == 100 + h        \* the sender's port for the counterpart of half h
Perms(S) == {f \in [1..Cardinality(S) -> S] : \A a, b \in 1..Cardinality(S) : a # b => f[a] # f[b]}
Init == /\ stage = "init" /\ batch = <<>> /\ callbacks = <<>> /\ rejected = {} /\ lost = FALSE
        /\ peer = [h \in Halves |-> 0] /\ failedR = {} /\ failedS = {}
\* the sender serializes: halves are met in some order (struct layout), ids are the halves' own ids
Send == /\ stage = "init" /\ stage' = "sent"
        /\ \E order \in Perms(Halves) : batch' = [i \in 1..N |-> <<PortOf(order[i]), order[i]>>]
        /\ UNCHANGED <<callbacks, rejected, lost, peer, failedR, failedS>>
\* the receiver deserializes the value: callbacks are registered in the order the halves are met, which need
\* not be the order of the batch (maps, skipped fields, ...)
Deser == /\ stage = "sent" /\ stage' = "deser"
         /\ \E order \in Perms(Halves) : callbacks' = order
         /\ \E rej \in SUBSET {PortOf(h) : h \in Halves} : rejected' = rej
         /\ \E l \in BOOLEAN : lost' = l
         /\ UNCHANGED <<batch, peer, failedR, failedS>>
Wire == /\ stage = "deser" /\ stage' = "wired"
        /\ IF lost THEN /\ failedR' = Halves /\ failedS' = {PortOf(h) : h \in Halves} /\ UNCHANGED peer
           ELSE LET target(i) == IF ByPosition THEN callbacks[i] ELSE batch[i][2]      \* which half gets request i
                    ok(i) == batch[i][1] \notin rejected IN
                /\ peer' = [h \in Halves |-> IF \E i \in 1..N : target(i) = h /\ ok(i)
                                              THEN batch[CHOOSE i \in 1..N : target(i) = h /\ ok(i)][1] ELSE 0]
                /\ failedR' = {h \in Halves : ~\E i \in 1..N : target(i) = h /\ ok(i)}
                /\ failedS' = {batch[i][1] : i \in {j \in 1..N : ~ok(j)}}
        /\ UNCHANGED <<batch, callbacks, rejected, lost>>
Next == Send \/ Deser \/ Wire
Spec == Init /\ [][Next]_vars
\* C05: a connected half is connected to its own counterpart and to no other channel
C05_OneToOne == stage = "wired" => \A h \in Halves : peer[h] # 0 => peer[h] = PortOf(h)
\* C05: a half that is not connected fails at both ends (never hangs, never silently works)
C05_FailBothEnds == stage = "wired" => \A h \in Halves : (peer[h] = 0) <=> (h \in failedR /\ PortOf(h) \in failedS)
=============================================================================
