---- MODULE RwLock ----
EXTENDS Naturals, Sequences, FiniteSets, TLC
CONSTANTS Readers, Writers, FixF4   \* FixF4: fetch drops stale cache entry / re-checks under write lock
VARIABLES value, gen, opc, curW, wq, rq, invalid, holders, cache,
          lockQ, rHeld, wHeld, rpc, rgen, mons, wpc, wval, seen, ret

vars == <<value, gen, opc, curW, wq, rq, invalid, holders, cache, lockQ, rHeld, wHeld, rpc, rgen, mons, wpc, wval, seen, ret>>
MaxGen == Cardinality(Writers) + 1
Gens == 0..MaxGen
Mons == Readers            \* monitor spawned by reader r's fetch is named r
Procs == [k: {"r"}, id: Readers] \cup [k: {"m"}, id: Mons]

Valid(c) == c # <<>> /\ ~invalid[c[2]] /\ c[2] = gen   \* dropped channel of old generations is closed

Init == /\ value = 0 /\ gen = 0 /\ opc = "idle" /\ curW = 0 /\ wq = <<>> /\ rq = <<>>
        /\ invalid = [g \in Gens |-> FALSE] /\ holders = [g \in Gens |-> 0] /\ cache = <<>>
        /\ lockQ = <<>> /\ rHeld = {} /\ wHeld = <<>>
        /\ rpc = [r \in Readers |-> "start"] /\ rgen = [r \in Readers |-> 0]
        /\ mons = [m \in Mons |-> [pc |-> "off", g |-> 0]]
        /\ wpc = [w \in Writers |-> "start"] /\ wval = [w \in Writers |-> 0]
        /\ seen = [r \in Readers |-> {}] /\ ret = [r \in Readers |-> 0]

\* ---- fair local RwLock on the cache (FIFO queue, writer blocks later readers)
LockReq(p, kind) == lockQ' = Append(lockQ, <<p, kind>>)
Grant == /\ lockQ # <<>>
         /\ LET h == Head(lockQ) IN
              \/ /\ h[2] = "w" /\ rHeld = {} /\ wHeld = <<>> /\ wHeld' = <<h[1]>> /\ UNCHANGED rHeld
              \/ /\ h[2] = "r" /\ wHeld = <<>> /\ rHeld' = rHeld \cup {h[1]} /\ UNCHANGED wHeld
         /\ lockQ' = Tail(lockQ)
         /\ UNCHANGED <<value, gen, opc, curW, wq, rq, invalid, holders, cache, rpc, rgen, mons, wpc, wval, seen, ret>>
HasR(p) == p \in rHeld
HasW(p) == wHeld = <<p>>

\* ---- reader r: ReadLock::fetch + guard
RP(r) == [k |-> "r", id |-> r]
RStart(r) == /\ rpc[r] = "start" /\ rpc' = [rpc EXCEPT ![r] = "rl_wait"] /\ LockReq(RP(r), "r")
             /\ seen' = [seen EXCEPT ![r] = {value}]
             /\ UNCHANGED <<value, gen, opc, curW, wq, rq, invalid, holders, cache, rHeld, wHeld, rgen, mons, wpc, wval, ret>>
RCheck(r) == /\ rpc[r] = "rl_wait" /\ HasR(RP(r))
             /\ IF Valid(cache)
                  THEN /\ rpc' = [rpc EXCEPT ![r] = "holding"] /\ ret' = [ret EXCEPT ![r] = cache[1]]
                       /\ UNCHANGED <<rHeld, lockQ>>
                  ELSE /\ rpc' = [rpc EXCEPT ![r] = "wl_wait"] /\ rHeld' = rHeld \ {RP(r)} /\ LockReq(RP(r), "w") /\ UNCHANGED ret
             /\ UNCHANGED <<value, gen, opc, curW, wq, rq, invalid, holders, cache, wHeld, rgen, mons, wpc, wval, seen>>
RWLocked(r) == /\ rpc[r] = "wl_wait" /\ HasW(RP(r))
               /\ IF FixF4 /\ Valid(cache)
                    THEN /\ rpc' = [rpc EXCEPT ![r] = "holding"] /\ ret' = [ret EXCEPT ![r] = cache[1]]
                         /\ wHeld' = <<>> /\ rHeld' = rHeld \cup {RP(r)}
                         /\ UNCHANGED <<rq, cache, holders>>
                    ELSE /\ rpc' = [rpc EXCEPT ![r] = "wait_reply"] /\ rq' = Append(rq, r)
                         /\ IF FixF4 /\ cache # <<>>
                              THEN cache' = <<>> /\ holders' = [holders EXCEPT ![cache[2]] = @ - 1]
                              ELSE UNCHANGED <<cache, holders>>
                         /\ UNCHANGED <<ret, wHeld, rHeld>>
               /\ UNCHANGED <<value, gen, opc, curW, wq, invalid, lockQ, rgen, mons, wpc, wval, seen>>
\* reply arrived (rgen set by owner): store in cache (dropping old entry), spawn monitor, downgrade
RStore(r) == /\ rpc[r] = "got_reply"
             /\ holders' = IF cache # <<>> THEN [holders EXCEPT ![cache[2]] = @ - 1] ELSE holders
             /\ cache' = <<ret[r], rgen[r]>>
             /\ mons' = [mons EXCEPT ![r] = [pc |-> "watch", g |-> rgen[r]]]
             /\ wHeld' = <<>> /\ rHeld' = rHeld \cup {RP(r)}
             /\ rpc' = [rpc EXCEPT ![r] = "holding"]
             /\ UNCHANGED <<value, gen, opc, curW, wq, rq, invalid, lockQ, rgen, wpc, wval, seen, ret>>
RRelease(r) == /\ rpc[r] = "holding" /\ rpc' = [rpc EXCEPT ![r] = "done"] /\ rHeld' = rHeld \ {RP(r)}
               /\ UNCHANGED <<value, gen, opc, curW, wq, rq, invalid, holders, cache, lockQ, wHeld, rgen, mons, wpc, wval, seen, ret>>

\* ---- monitor task m
MP(m) == [k |-> "m", id |-> m]
MWake(m) == /\ mons[m].pc = "watch" /\ (invalid[mons[m].g] \/ mons[m].g # gen)
            /\ mons' = [mons EXCEPT ![m].pc = "wl_wait"] /\ LockReq(MP(m), "w")
            /\ UNCHANGED <<value, gen, opc, curW, wq, rq, invalid, holders, cache, rHeld, wHeld, rpc, rgen, wpc, wval, seen, ret>>
MClear(m) == /\ mons[m].pc = "wl_wait" /\ HasW(MP(m))
             /\ IF cache # <<>> /\ ~Valid(cache)
                  THEN cache' = <<>> /\ holders' = [holders EXCEPT ![cache[2]] = @ - 1]
                  ELSE UNCHANGED <<cache, holders>>
             /\ wHeld' = <<>> /\ mons' = [mons EXCEPT ![m].pc = "off"]
             /\ UNCHANGED <<value, gen, opc, curW, wq, rq, invalid, lockQ, rHeld, rpc, rgen, wpc, wval, seen, ret>>

\* ---- writer w
WStart(w) == /\ wpc[w] = "start" /\ wpc' = [wpc EXCEPT ![w] = "wait_value"] /\ wq' = Append(wq, w)
             /\ UNCHANGED <<value, gen, opc, curW, rq, invalid, holders, cache, lockQ, rHeld, wHeld, rpc, rgen, mons, wval, seen, ret>>
WCommit(w) == /\ wpc[w] = "holding" /\ opc = "handout" /\ curW = w
              /\ value' = wval[w] + 1 /\ opc' = "idle" /\ wpc' = [wpc EXCEPT ![w] = "done"]
              /\ seen' = [r \in Readers |-> IF rpc[r] \notin {"start", "done"} THEN seen[r] \cup {wval[w] + 1} ELSE seen[r]]
              /\ UNCHANGED <<gen, curW, wq, rq, invalid, holders, cache, lockQ, rHeld, wHeld, rpc, rgen, mons, wval, ret>>
WDrop(w) == /\ wpc[w] = "holding" /\ opc = "handout" /\ curW = w
            /\ opc' = "idle" /\ wpc' = [wpc EXCEPT ![w] = "done"]
            /\ UNCHANGED <<value, gen, curW, wq, rq, invalid, holders, cache, lockQ, rHeld, wHeld, rpc, rgen, mons, wval, seen, ret>>

\* ---- owner task (biased: write first)
OWrite == /\ opc = "idle" /\ wq # <<>>
          /\ curW' = Head(wq) /\ wq' = Tail(wq) /\ invalid' = [invalid EXCEPT ![gen] = TRUE] /\ opc' = "waitDrop"
          /\ UNCHANGED <<value, gen, rq, holders, cache, lockQ, rHeld, wHeld, rpc, rgen, mons, wpc, wval, seen, ret>>
OHandout == /\ opc = "waitDrop" /\ holders[gen] = 0
            /\ gen' = gen + 1 /\ opc' = "handout"
            /\ wpc' = [wpc EXCEPT ![curW] = "holding"] /\ wval' = [wval EXCEPT ![curW] = value]
            /\ UNCHANGED <<value, curW, wq, rq, invalid, holders, cache, lockQ, rHeld, wHeld, rpc, rgen, mons, seen, ret>>
ORead == /\ opc = "idle" /\ wq = <<>> /\ rq # <<>>
         /\ LET r == Head(rq) IN
              /\ rq' = Tail(rq) /\ holders' = [holders EXCEPT ![gen] = @ + 1]
              /\ rpc' = [rpc EXCEPT ![r] = "got_reply"] /\ rgen' = [rgen EXCEPT ![r] = gen] /\ ret' = [ret EXCEPT ![r] = value]
         /\ UNCHANGED <<value, gen, opc, curW, wq, invalid, cache, lockQ, rHeld, wHeld, mons, wpc, wval, seen>>

AllDone == (\A r \in Readers : rpc[r] = "done") /\ (\A w \in Writers : wpc[w] = "done")
Term == AllDone /\ UNCHANGED vars

Next == \/ Grant \/ OWrite \/ OHandout \/ ORead \/ Term
        \/ \E r \in Readers : RStart(r) \/ RCheck(r) \/ RWLocked(r) \/ RStore(r) \/ RRelease(r)
        \/ \E m \in Mons : MWake(m) \/ MClear(m)
        \/ \E w \in Writers : WStart(w) \/ WCommit(w) \/ WDrop(w)
Spec == Init /\ [][Next]_vars /\ WF_vars(Next)

\* ---- properties
Excl == \A w \in Writers : wpc[w] = "holding" =>
           /\ \A w2 \in Writers : wpc[w2] = "holding" => w2 = w
           /\ \A r \in Readers : rpc[r] # "holding"
Fresh == \A r \in Readers : rpc[r] \in {"holding", "done"} => ret[r] \in seen[r]
HoldersOk == \A g \in Gens : holders[g] >= 0
Live == <>AllDone
====
