---------------------------- MODULE ChmuxTrace ----------------------------
(***************************************************************************)
(* Trace specification for chmux connections (C01 C02 C03 C06 C07 C09 C10 *)
(* C11).  It consumes one recorded event per step: raw wire frames of the  *)
(* harness-owned transport (decoded here with Wire!Dec), API calls and     *)
(* their results, handle drops, dispatcher results, quiescence points and  *)
(* the credit-pool reports of the H2 hooks.  It is in monitor form: every  *)
(* event is consumable; a property violation sets `bad` to                 *)
(* <<property id, reason>> and the invariants Inv_Cxx name the property.   *)
(*                                                                         *)
(* The observation-level state (per stream: cost sent, credit granted,     *)
(* messages committed / delivered, lifecycle flags) and the formulas over  *)
(* it are the same as the history variables and invariants of the          *)
(* exhaustive models ChmuxData.tla / ChmuxLife.tla (module ChmuxProps).    *)
(***************************************************************************)
EXTENDS Integers, Sequences, FiniteSets, TLC, Json, IOUtils, ChmuxProps

Rec == ndJsonDeserialize(IOEnv.TRACE)

W == INSTANCE Wire

VARIABLES
    l,          \* next line of the trace
    cfg,        \* <<cfg of A, cfg of B>> (records) of the current scenario
    fly,        \* [1..2 -> Seq(frame)] frames emitted and not yet delivered, per direction
    hdrE, hdrD, \* [1..2 -> decoded Data header awaiting its payload frame | None] at emission / delivery
    pair,       \* <<ep, local port>> :> remote port, learnt from PortOpened frames
    st,         \* stream <<dir, receiver-side port>> :> observation record
    ops,        \* op id :> api_start record
    pend,       \* ids of API calls in progress
    reqs,       \* <<client ep, client port>> :> state of a port-open request seen on the wire
    poolKey,    \* <<ep, local port>> :> key of the sender credit pool (H2 port_create)
    lastPool,   \* pool key :> pool size last reported by an H2 credit hook
    ended,      \* [1..2 -> dispatcher result class | "running"]
    gone,       \* handles dropped so far: set of <<ep, what>>
    bad         \* <<>> or <<property id, reason, line>>

vars == <<l, cfg, fly, hdrE, hdrD, pair, st, ops, pend, reqs, poolKey, lastPool, ended, gone, bad>>

None == [k |-> "None"]
Ev == Rec[l]
Has(f) == f \in DOMAIN Ev
Oth(d) == 3 - d
Get(f, k, dflt) == IF k \in DOMAIN f THEN f[k] ELSE dflt
Put(f, k, v) == IF k \in DOMAIN f THEN [f EXCEPT ![k] = v] ELSE f @@ (k :> v)
Checked(p) == IOEnv.CHECK = "ALL" \/ p = IOEnv.CHECK \/ p = "TOOL"
Flag(p, why) == IF bad = <<>> /\ Checked(p) /\ PrintT("VIOLATION property=" \o p \o " line=" \o ToString(l) \o " reason=" \o why) THEN <<p, why, l>> ELSE bad

NewStream == [sent |-> 0, granted |-> 0, grantedE |-> 0, arrived |-> 0, consumed |-> 0,
              wcur |-> <<>>, wopen |-> FALSE, emptyP |-> 0,
              committed |-> <<>>, delivered |-> <<>>, rcur |-> <<>>, rchunk |-> FALSE, eos |-> FALSE,
              finE |-> FALSE, closeE |-> FALSE, rfinE |-> FALSE]

Init == /\ l = 1 /\ cfg = <<>> /\ fly = <<<<>>, <<>>>> /\ hdrE = <<None, None>> /\ hdrD = <<None, None>>
        /\ pair = <<>> /\ st = <<>> /\ ops = <<>> /\ pend = {} /\ reqs = <<>> /\ poolKey = <<>> /\ lastPool = <<>>
        /\ ended = <<"running", "running">> /\ gone = {} /\ bad = <<>>

Is(e) == l <= Len(Rec) /\ Ev.ev = e /\ l' = l + 1

\* ------------------------------------------------------------------ scenario start
Reset == /\ Is("reset")
         /\ cfg' = Ev.cfg /\ fly' = <<<<>>, <<>>>> /\ hdrE' = <<None, None>> /\ hdrD' = <<None, None>>
         /\ pair' = <<>> /\ st' = <<>> /\ ops' = <<>> /\ pend' = {} /\ reqs' = <<>> /\ poolKey' = <<>> /\ lastPool' = <<>>
         /\ ended' = <<"running", "running">> /\ gone' = {}
         /\ bad' = bad

\* ------------------------------------------------------------------ wire: emission
\* stream that a PortCredits frame sent in direction d for (sender-side) port p refers to
CreditStream(d, p) == <<Oth(d), Get(pair, <<Oth(d), p>>, <<>>)>>

EmitPayload(d) ==
    LET h == hdrE[d]
        k == <<d, h.port>>
        len == Ev.len
        s == Get(st, k, NewStream)
        chunk == cfg[Oth(d)].chunk
        rbuf == cfg[Oth(d)].rbuf
        whole == Len(Ev.b) = len
        cur == IF h.first THEN <<>> ELSE s.wcur
        s1 == [s EXCEPT !.sent = @ + W!DataCost(len),
                        !.wcur = IF h.last THEN <<>> ELSE (IF whole THEN cur \o Ev.b ELSE cur),
                        !.wopen = ~h.last, !.emptyP = 0]
        why == IF k \notin DOMAIN st THEN <<"C08", "data frame for a port that was never opened">>
               ELSE IF s.finE THEN <<"C11", "data frame after SendFinish">>
               ELSE IF len > chunk THEN <<"C02", "data frame larger than the advertised chunk size">>
               ELSE IF s1.sent - s1.granted > rbuf THEN <<"C02", "sent minus granted credit exceeds the advertised receive buffer">>
               ELSE <<>> IN
    /\ st' = Put(st, k, s1)
    /\ hdrE' = [hdrE EXCEPT ![d] = None]
    /\ bad' = IF why = <<>> THEN bad ELSE Flag(why[1], why[2])
    /\ UNCHANGED <<pair, reqs>>

EmitMsg(d) ==
    LET m == W!Dec(Ev.b) IN
    IF m.k = "Bad" THEN
        /\ bad' = Flag("C09", "emitted frame does not decode under the published layout")
        /\ UNCHANGED <<st, hdrE, pair, reqs>>
    ELSE IF W!Enc(m) # Ev.b THEN
        /\ bad' = Flag("C09", "emitted frame is not the canonical encoding of its meaning")
        /\ UNCHANGED <<st, hdrE, pair, reqs>>
    ELSE
    CASE m.k = "Data" ->
            /\ hdrE' = [hdrE EXCEPT ![d] = m] /\ UNCHANGED <<st, pair, reqs, bad>>
      [] m.k = "PortData" ->
            LET k == <<d, m.port>>
                s == Get(st, k, NewStream)
                n == Len(m.ports)
                s1 == [s EXCEPT !.sent = @ + 4 * n, !.wopen = ~m.last, !.wcur = <<>>,
                                !.emptyP = IF n = 0 THEN @ + 1 ELSE 0]
                dup == \E i \in 1..n : <<d, m.ports[i]>> \in DOMAIN reqs /\ reqs[<<d, m.ports[i]>>].state = "open"
                why == IF k \notin DOMAIN st THEN <<"C08", "port data for a port that was never opened">>
                       ELSE IF s.finE THEN <<"C11", "port data after SendFinish">>
                       ELSE IF 4 * n > cfg[Oth(d)].chunk THEN <<"C02", "port batch larger than the advertised chunk size">>
                       ELSE IF s1.sent - s1.granted > cfg[Oth(d)].rbuf THEN <<"C02", "sent minus granted credit exceeds the advertised receive buffer">>
                       ELSE IF s1.emptyP >= 3 THEN <<"C03", "port-open batch emits frames without making progress">>
                       ELSE IF dup THEN <<"C10", "port number of a pending request reused in a new request">>
                       ELSE IF m.hasIds # (cfg[Oth(d)].version >= W!VersionPortId) THEN <<"C09", "port ids sent to a peer of the wrong version">>
                       ELSE <<>> IN
            /\ st' = Put(st, k, s1)
            /\ reqs' = [q \in DOMAIN reqs \cup {<<d, m.ports[i]>> : i \in 1..n} |->
                            IF \E i \in 1..n : q = <<d, m.ports[i]>> THEN [state |-> "open", via |-> "port"] ELSE reqs[q]]
            /\ bad' = IF why = <<>> THEN bad ELSE Flag(why[1], why[2])
            /\ UNCHANGED <<hdrE, pair>>
      [] m.k = "PortCredits" ->
            LET k == CreditStream(d, m.port)
                s == Get(st, k, NewStream)
                c == W!Val(m.credits)
                s1 == [s EXCEPT !.grantedE = @ + c]
                why == IF k \notin DOMAIN st THEN <<"C08", "credits for a port that was never opened">>
                       ELSE IF s1.grantedE > s.arrived THEN <<"C02", "more credit granted than data received">>
                       ELSE IF s.rfinE THEN <<"C11", "credits after ReceiveFinish">>
                       ELSE <<>> IN
            /\ st' = Put(st, k, s1)
            /\ bad' = IF why = <<>> THEN bad ELSE Flag(why[1], why[2])
            /\ UNCHANGED <<hdrE, pair, reqs>>
      [] m.k = "OpenPort" ->
            LET q == <<d, m.client>>
                open == {r \in DOMAIN reqs : r[1] = d /\ reqs[r].state = "open" /\ reqs[r].via = "client"}
                why == IF q \in DOMAIN reqs /\ reqs[q].state = "open" THEN <<"C10", "OpenPort for a port with a pending request">>
                       ELSE IF <<d, m.client>> \in DOMAIN pair THEN <<"C07", "OpenPort reuses the number of an open port">>
                       ELSE IF Cardinality(open) + 1 > cfg[Oth(d)].connect_q THEN <<"C10", "more unanswered client requests than the peer's connect queue">>
                       ELSE IF m.hasId # (cfg[Oth(d)].version >= W!VersionPortId) THEN <<"C09", "port id sent to a peer of the wrong version">>
                       ELSE <<>> IN
            /\ reqs' = Put(reqs, q, [state |-> "open", via |-> "client"])
            /\ bad' = IF why = <<>> THEN bad ELSE Flag(why[1], why[2])
            /\ UNCHANGED <<st, hdrE, pair>>
      [] m.k = "PortOpened" ->
            \* sent by the server endpoint d: its port m.server is paired with the client's port m.client
            LET q == <<Oth(d), m.client>>
                why == IF ~(q \in DOMAIN reqs /\ reqs[q].state = "open") THEN <<"C10", "PortOpened without a pending request">>
                       ELSE IF <<d, m.server>> \in DOMAIN pair THEN <<"C07", "server port number already in use by an open port">>
                       ELSE <<>> IN
            /\ reqs' = Put(reqs, q, [state |-> "accepted", via |-> Get(reqs, q, [via |-> "client"]).via])
            /\ pair' = Put(Put(pair, <<d, m.server>>, m.client), <<Oth(d), m.client>>, m.server)
            /\ st' = Put(Put(st, <<d, m.client>>, NewStream), <<Oth(d), m.server>>, NewStream)
            /\ bad' = IF why = <<>> THEN bad ELSE Flag(why[1], why[2])
            /\ UNCHANGED hdrE
      [] m.k = "Rejected" ->
            LET q == <<Oth(d), m.client>>
                why == IF ~(q \in DOMAIN reqs /\ reqs[q].state = "open") THEN <<"C10", "Rejected without a pending request">> ELSE <<>> IN
            /\ reqs' = Put(reqs, q, [state |-> IF m.noPorts THEN "rejected_noports" ELSE "rejected", via |-> Get(reqs, q, [via |-> "client"]).via])
            /\ bad' = IF why = <<>> THEN bad ELSE Flag(why[1], why[2])
            /\ UNCHANGED <<st, hdrE, pair>>
      [] m.k = "SendFinish" ->
            LET k == <<d, m.port>>  s == Get(st, k, NewStream)
                why == IF k \notin DOMAIN st THEN <<"C08", "SendFinish for a port that was never opened">>
                       ELSE IF s.finE THEN <<"C11", "SendFinish sent twice">> ELSE <<>> IN
            /\ st' = Put(st, k, [s EXCEPT !.finE = TRUE])
            /\ bad' = IF why = <<>> THEN bad ELSE Flag(why[1], why[2])
            /\ UNCHANGED <<hdrE, pair, reqs>>
      [] m.k \in {"ReceiveClose", "ReceiveFinish"} ->
            LET k == CreditStream(d, m.port)  s == Get(st, k, NewStream)
                why == IF k \notin DOMAIN st THEN <<"C08", "receiver close/finish for a port that was never opened">>
                       ELSE IF m.k = "ReceiveClose" /\ (s.closeE \/ s.rfinE) THEN <<"C11", "ReceiveClose sent twice or after ReceiveFinish">>
                       ELSE IF m.k = "ReceiveFinish" /\ s.rfinE THEN <<"C11", "ReceiveFinish sent twice">> ELSE <<>> IN
            /\ st' = Put(st, k, IF m.k = "ReceiveClose" THEN [s EXCEPT !.closeE = TRUE] ELSE [s EXCEPT !.rfinE = TRUE])
            /\ bad' = IF why = <<>> THEN bad ELSE Flag(why[1], why[2])
            /\ UNCHANGED <<hdrE, pair, reqs>>
      [] OTHER -> UNCHANGED <<st, hdrE, pair, reqs, bad>>

WireEmit ==
    /\ Is("wire_emit")
    /\ LET d == Ev.dir IN
         /\ fly' = [fly EXCEPT ![d] = Append(@, [b |-> Ev.b, len |-> Ev.len])]
         /\ IF hdrE[d] # None THEN EmitPayload(d) ELSE EmitMsg(d)
    /\ UNCHANGED <<cfg, hdrD, ops, pend, poolKey, lastPool, ended, gone>>

\* ------------------------------------------------------------------ wire: delivery
WireDeliver ==
    /\ Is("wire_deliver")
    /\ LET d == Ev.dir IN
       IF fly[d] = <<>> THEN
            /\ bad' = Flag("TOOL", "delivery of a frame that was never emitted") /\ UNCHANGED <<fly, hdrD, st>>
       ELSE LET f == Head(fly[d]) IN
            /\ fly' = [fly EXCEPT ![d] = Tail(@)]
            /\ IF hdrD[d] # None THEN
                    LET k == <<d, hdrD[d].port>>  s == Get(st, k, NewStream) IN
                    /\ st' = Put(st, k, [s EXCEPT !.arrived = @ + W!DataCost(f.len)])
                    /\ hdrD' = [hdrD EXCEPT ![d] = None]
               ELSE LET m == W!Dec(f.b) IN
                    CASE m.k = "Data" -> hdrD' = [hdrD EXCEPT ![d] = m] /\ UNCHANGED st
                      [] m.k = "PortData" ->
                            LET k == <<d, m.port>>  s == Get(st, k, NewStream) IN
                            st' = Put(st, k, [s EXCEPT !.arrived = @ + 4 * Len(m.ports)]) /\ UNCHANGED hdrD
                      [] m.k = "PortCredits" ->
                            LET k == CreditStream(d, m.port)  s == Get(st, k, NewStream) IN
                            st' = Put(st, k, [s EXCEPT !.granted = @ + W!Val(m.credits)]) /\ UNCHANGED hdrD
                      [] OTHER -> UNCHANGED <<st, hdrD>>
            /\ bad' = bad
    /\ UNCHANGED <<cfg, hdrE, pair, ops, pend, reqs, poolKey, lastPool, ended, gone>>

\* ------------------------------------------------------------------ API
SendKinds == {"send", "try_send", "send_chunks", "connect"}
RecvKinds == {"recv_any", "recv_chunk"}
\* stream an operation works on
OpStream(o) == IF o.kind \in SendKinds THEN <<o.ep, Get(pair, <<o.ep, o.port>>, <<>>)>> ELSE <<Oth(o.ep), o.port>>

ApiStart ==
    /\ Is("api_start")
    /\ ops' = Put(ops, Ev.op, Ev) /\ pend' = pend \cup {Ev.op}
    /\ UNCHANGED <<cfg, fly, hdrE, hdrD, pair, st, reqs, poolKey, lastPool, ended, gone, bad>>

ApiDone ==
    /\ Is("api_done")
    /\ pend' = pend \ {Ev.op}
    /\ IF Ev.op \notin DOMAIN ops THEN UNCHANGED <<st, bad>>
       ELSE LET o == ops[Ev.op]  k == OpStream(o)  s == Get(st, k, NewStream) IN
         IF o.kind \in {"send", "try_send", "send_chunks"} /\ Ev.res = "ok" THEN
              /\ st' = Put(st, k, [s EXCEPT !.committed = Append(@, [t |-> "data", b |-> o.data])])
              /\ bad' = IF k \notin DOMAIN st THEN Flag("C10", "send on a port the wire never opened") ELSE bad
         ELSE IF o.kind = "connect" /\ Ev.res = "ok" /\ o.n > 0 THEN
              /\ st' = Put(st, k, [s EXCEPT !.committed = Append(@, [t |-> "ports", n |-> o.n])]) /\ bad' = bad
         ELSE IF o.kind \in RecvKinds THEN
              LET s1 == CASE Ev.res = "data" -> [s EXCEPT !.delivered = Append(@, [t |-> "data", b |-> Ev.data])]
                          [] Ev.res = "requests" -> [s EXCEPT !.delivered = Append(@, [t |-> "ports", n |-> Ev.n])]
                          [] Ev.res = "chunks" -> [s EXCEPT !.rchunk = TRUE, !.rcur = <<>>]
                          [] Ev.res = "chunk" -> [s EXCEPT !.rcur = @ \o Ev.data]
                          [] Ev.res = "end" -> [s EXCEPT !.delivered = Append(@, [t |-> "data", b |-> s.rcur]), !.rcur = <<>>, !.rchunk = FALSE]
                          [] Ev.res = "cancelled" -> [s EXCEPT !.rcur = <<>>, !.rchunk = FALSE]
                          [] Ev.res = "none" -> [s EXCEPT !.eos = TRUE]
                          [] OTHER -> s
                  why == IF ~IsPrefix(s1.delivered, s1.committed) THEN <<"C01", "receiver obtained a message that is not the next completed send">>
                         ELSE IF Ev.res = "none" /\ s1.delivered # s1.committed THEN <<"C11", "end of stream with completed sends missing">>
                         ELSE <<>> IN
              /\ st' = Put(st, k, s1)
              /\ bad' = IF why = <<>> THEN bad ELSE Flag(why[1], why[2])
         ELSE UNCHANGED <<st, bad>>
    /\ UNCHANGED <<cfg, fly, hdrE, hdrD, pair, ops, reqs, poolKey, lastPool, ended, gone>>

ApiCancel ==
    /\ Is("api_cancel") /\ pend' = pend \ {Ev.op}
    /\ UNCHANGED <<cfg, fly, hdrE, hdrD, pair, st, ops, reqs, poolKey, lastPool, ended, gone, bad>>

ApiPanic ==
    /\ Is("api_panic") /\ pend' = pend \ {Ev.op}
    /\ bad' = Flag("C08", "panic inside an API call")
    /\ UNCHANGED <<cfg, fly, hdrE, hdrD, pair, st, ops, reqs, poolKey, lastPool, ended, gone>>

\* ------------------------------------------------------------------ quiescence: liveness verdicts
Waiting(k) == \E i \in pend : ops[i].kind \in RecvKinds /\ OpStream(ops[i]) = k
Sending(k) == \E i \in pend : ops[i].kind \in SendKinds /\ OpStream(ops[i]) = k
PoolOf(k) == LET p == Get(pair, <<Oth(k[1]), k[2]>>, <<>>)  key == Get(poolKey, <<k[1], p>>, 0) IN Get(lastPool, key, 0 - 1)

Quiescent ==
    /\ Is("quiescent")
    /\ LET stuck == {k \in DOMAIN st : Sending(k) /\ Waiting(k)}
           lost == {k \in DOMAIN st : Waiting(k) /\ st[k].delivered # st[k].committed}
           leak == {k \in DOMAIN st : ~Sending(k) /\ PoolOf(k) >= 0 /\ ~st[k].closeE /\ ~st[k].rfinE
                                      /\ PoolOf(k) # cfg[Oth(k[1])].rbuf - (st[k].sent - st[k].granted)}
           why == IF fly # <<<<>>, <<>>>> THEN <<"TOOL", "frames in flight at quiescence">>
                  ELSE IF stuck # {} THEN <<"C03", "operation still pending although the receiver has consumed everything">>
                  ELSE IF lost # {} THEN <<"C01", "completed send not delivered although the receiver keeps receiving">>
                  ELSE IF leak # {} THEN <<"C03", "credit leak: sender pool differs from buffer minus outstanding bytes">>
                  ELSE <<>> IN
       bad' = IF why = <<>> THEN bad ELSE Flag(why[1], why[2])
    /\ UNCHANGED <<cfg, fly, hdrE, hdrD, pair, st, ops, pend, reqs, poolKey, lastPool, ended, gone>>

Livelock ==
    /\ Is("livelock")
    /\ bad' = Flag("C03", "scenario does not reach quiescence (frames emitted without progress)")
    /\ UNCHANGED <<cfg, fly, hdrE, hdrD, pair, st, ops, pend, reqs, poolKey, lastPool, ended, gone>>

\* ------------------------------------------------------------------ lifecycle
Drop ==
    /\ Is("drop") /\ gone' = gone \cup {<<Ev.ep, Ev.what>>}
    /\ UNCHANGED <<cfg, fly, hdrE, hdrD, pair, st, ops, pend, reqs, poolKey, lastPool, ended, bad>>

RunEnd ==
    /\ Is("run_end")
    /\ ended' = [ended EXCEPT ![Ev.ep] = Ev.res]
    /\ bad' = IF Ev.res = "panic" THEN Flag("C08", "dispatcher panicked")
              ELSE IF Has("expect") /\ Ev.expect # Ev.res THEN Flag(Ev.prop, "dispatcher ended with an unexpected result")
              ELSE bad
    /\ UNCHANGED <<cfg, fly, hdrE, hdrD, pair, st, ops, pend, reqs, poolKey, lastPool, gone>>

\* ------------------------------------------------------------------ H2 hooks: sender credit pool
HPortCreate ==
    /\ Is("h_port_create")
    /\ poolKey' = Put(poolKey, <<Ev.who, Ev.local>>, Ev.pool_key)
    /\ lastPool' = Put(lastPool, Ev.pool_key, IF Ev.who \in {1, 2} /\ cfg # <<>> THEN cfg[Oth(Ev.who)].rbuf ELSE 0)
    /\ UNCHANGED <<cfg, fly, hdrE, hdrD, pair, st, ops, pend, reqs, ended, gone, bad>>

HPool ==
    /\ l <= Len(Rec) /\ Ev.ev \in {"h_credit_grant", "h_credit_drop", "h_credit_provide"} /\ l' = l + 1
    /\ lastPool' = Put(lastPool, Ev.key, Ev.pool)
    /\ UNCHANGED <<cfg, fly, hdrE, hdrD, pair, st, ops, pend, reqs, poolKey, ended, gone, bad>>

Known == {"reset", "wire_emit", "wire_deliver", "api_start", "api_done", "api_cancel", "api_panic", "quiescent", "livelock",
          "drop", "run_end", "h_port_create", "h_credit_grant", "h_credit_drop", "h_credit_provide"}
Skip == /\ l <= Len(Rec) /\ Ev.ev \notin Known /\ l' = l + 1
        /\ UNCHANGED <<cfg, fly, hdrE, hdrD, pair, st, ops, pend, reqs, poolKey, lastPool, ended, gone, bad>>

Next == Reset \/ WireEmit \/ WireDeliver \/ ApiStart \/ ApiDone \/ ApiCancel \/ ApiPanic \/ Quiescent \/ Livelock
        \/ Drop \/ RunEnd \/ HPortCreate \/ HPool \/ Skip
Spec == Init /\ [][Next]_vars

\* ------------------------------------------------------------------ properties evaluated at every step
Ok(p) == bad = <<>> \/ bad[1] # p
Inv_TOOL == Ok("TOOL")
Inv_C01 == Ok("C01")
Inv_C02 == Ok("C02")
Inv_C03 == Ok("C03")
Inv_C06 == Ok("C06")
Inv_C07 == Ok("C07")
Inv_C08 == Ok("C08")
Inv_C09 == Ok("C09")
Inv_C10 == Ok("C10")
Inv_C11 == Ok("C11")
\* the same formulas as in the exhaustive models, over the reconstructed observation state
Inv_Prefix == Checked("C01") => \A k \in DOMAIN st : IsPrefix(st[k].delivered, st[k].committed)
Inv_Bound == Checked("C02") /\ cfg # <<>> => \A k \in DOMAIN st : BoundOK(st[k].sent, st[k].granted, cfg[Oth(k[1])].rbuf)
Inv_Grant == Checked("C02") => \A k \in DOMAIN st : st[k].grantedE <= st[k].arrived

Accepted == IF TLCGet("stats").diameter - 1 = Len(Rec) THEN TRUE
            ELSE Print(<<"TRACE NOT CONSUMED", TLCGet("stats").diameter - 1, Len(Rec)>>, FALSE)
=============================================================================
