---------------------------- MODULE ChmuxTrace ----------------------------
(***************************************************************************)
(* Trace specification for chmux connections (C01 C02 C03 C06 C07 C09 C10 *)
(* C11).  It consumes one recorded event per step: raw wire frames of the  *)
(* harness-owned transport (decoded here with Wire!Dec), API calls and     *)
(* their results, handle drops, dispatcher results, quiescence points and  *)
(* the credit-pool reports of the H2 hooks.  It is in monitor form: every  *)
(* event is consumable; a property violation sets `bad` to                 *)
(* <<property id, reason>> and the invariants Inv_Cxx name the property.   *)
(*                                                                         *)
(* The observation-level state (per stream: cost sent, credit granted,     *)
(* messages committed / delivered, lifecycle flags) and the formulas over  *)
(* it are the same as the history variables and invariants of the          *)
(* exhaustive models ChmuxData.tla / ChmuxLife.tla (module ChmuxProps).    *)
(***************************************************************************)
EXTENDS Integers, Sequences, FiniteSets, TLC, Json, IOUtils, ChmuxProps

Rec == ndJsonDeserialize(IOEnv.TRACE)

W == INSTANCE Wire

VARIABLES
    l,          \* next line of the trace
    cfg,        \* <<cfg of A, cfg of B>> (records) of the current scenario
    fly,        \* [1..2 -> Seq(frame)] frames emitted and not yet delivered, per direction
    hdrE, hdrD, \* [1..2 -> decoded Data header awaiting its payload frame | None] at emission / delivery
    pair,       \* <<ep, local port>> :> remote port, learnt from PortOpened frames
    st,         \* stream <<dir, receiver-side port>> :> observation record
    ops,        \* op id :> api_start record
    pend,       \* ids of API calls in progress
    reqs,       \* <<client ep, client port>> :> state of a port-open request seen on the wire
    poolKey,    \* <<ep, local port>> :> key of the sender credit pool (H2 port_create)
    lastPool,   \* pool key :> pool size last reported by an H2 credit hook
    ended,      \* [1..2 -> dispatcher result class | "running"]
    gone,       \* handles dropped so far: set of <<ep, what>> and <<ep, what, port>>
    cnt,        \* counters <<ep, name>> :> Nat (frames delivered / API results per endpoint)
    misc,       \* [allDropped, faulted : BOOLEAN, apiPairs : set of <<ep, local, remote>>, lfin : set of ep that know the peer's listener is gone]
    bad         \* <<>> or <<property id, reason, line>>

vars == <<l, cfg, fly, hdrE, hdrD, pair, st, ops, pend, reqs, poolKey, lastPool, ended, gone, cnt, misc, bad>>

None == [k |-> "None"]
Ev == Rec[l]
Has(f) == f \in DOMAIN Ev
Oth(d) == 3 - d
Get(f, k, dflt) == IF k \in DOMAIN f THEN f[k] ELSE dflt
Put(f, k, v) == IF k \in DOMAIN f THEN [f EXCEPT ![k] = v] ELSE f @@ (k :> v)
Checked(p) == IOEnv.CHECK = "ALL" \/ p = IOEnv.CHECK \/ p = "TOOL"
\* first condition that holds among those whose property is being checked: cs is a sequence of <<condition, property, reason>>
First(cs) == LET idx == {i \in 1..Len(cs) : cs[i][1] /\ Checked(cs[i][2])} IN
             IF idx = {} THEN <<>> ELSE LET i == CHOOSE i \in idx : \A j \in idx : i <= j IN <<cs[i][2], cs[i][3]>>
Flag(p, why) == IF bad = <<>> /\ Checked(p) /\ PrintT("VIOLATION property=" \o p \o " line=" \o ToString(l) \o " reason=" \o why) THEN <<p, why, l>> ELSE bad

NewStream == [sent |-> 0, granted |-> 0, grantedE |-> 0, arrived |-> 0, consumed |-> 0,
              wcur |-> <<>>, wopen |-> FALSE, emptyP |-> 0,
              committed |-> <<>>, delivered |-> <<>>, rcur |-> <<>>, rchunk |-> FALSE, eos |-> FALSE,
              finE |-> FALSE, closeE |-> FALSE, rfinE |-> FALSE, finD |-> FALSE, closeD |-> FALSE, rfinD |-> FALSE,
              closeP |-> FALSE, rfinP |-> FALSE, cls |-> "open"]
Ensure(f, k) == IF k \in DOMAIN f THEN f ELSE f @@ (k :> NewStream)
Misc0 == [allDropped |-> FALSE, faulted |-> FALSE, apiPairs |-> {}, lfin |-> {}, fkind |-> "", fdir |-> 0, early |-> FALSE, closedApi |-> {}]
Inc(c, k) == Put(c, k, Get(c, k, 0) + 1)

Init == /\ l = 1 /\ cfg = <<>> /\ fly = <<<<>>, <<>>>> /\ hdrE = <<None, None>> /\ hdrD = <<None, None>>
        /\ pair = <<>> /\ st = <<>> /\ ops = <<>> /\ pend = {} /\ reqs = <<>> /\ poolKey = <<>> /\ lastPool = <<>>
        /\ ended = <<"running", "running">> /\ gone = {} /\ cnt = <<>> /\ misc = Misc0 /\ bad = <<>>

Is(e) == l <= Len(Rec) /\ Ev.ev = e /\ l' = l + 1

\* ------------------------------------------------------------------ scenario start
Reset == /\ Is("reset")
         /\ cfg' = Ev.cfg /\ fly' = <<<<>>, <<>>>> /\ hdrE' = <<None, None>> /\ hdrD' = <<None, None>>
         /\ pair' = <<>> /\ st' = <<>> /\ ops' = <<>> /\ pend' = {} /\ reqs' = <<>> /\ poolKey' = <<>> /\ lastPool' = <<>>
         /\ ended' = <<"running", "running">> /\ gone' = {} /\ cnt' = <<>> /\ misc' = Misc0
         /\ bad' = bad

\* ------------------------------------------------------------------ wire: emission
\* stream that a PortCredits frame sent in direction d for (sender-side) port p refers to
CreditStream(d, p) == <<Oth(d), Get(pair, <<Oth(d), p>>, <<>>)>>

EmitPayload(d) ==
    LET h == hdrE[d]
        k == <<d, h.port>>
        len == Ev.len
        s == Get(st, k, NewStream)
        chunk == cfg[Oth(d)].chunk
        rbuf == cfg[Oth(d)].rbuf
        whole == Len(Ev.b) = len
        cur == IF h.first THEN <<>> ELSE s.wcur
        s1 == [s EXCEPT !.sent = @ + W!DataCost(len),
                        !.wcur = IF h.last THEN <<>> ELSE (IF whole THEN cur \o Ev.b ELSE cur),
                        !.wopen = ~h.last, !.emptyP = 0]
        why == First(<<<<k \notin DOMAIN st, "C08", "data frame for a port that was never opened">>,
                   <<s.finE, "C11", "data frame after SendFinish">>,
                   <<len > chunk, "C02", "data frame larger than the advertised chunk size">>,
                   <<s1.sent - s1.granted > rbuf, "C02", "sent minus granted credit exceeds the advertised receive buffer">>>>) IN
    /\ st' = Put(st, k, s1)
    /\ hdrE' = [hdrE EXCEPT ![d] = None]
    /\ bad' = IF why = <<>> THEN bad ELSE Flag(why[1], why[2])
    /\ UNCHANGED <<pair, reqs>>

EmitMsg(d) ==
    LET m == W!Dec(Ev.b) IN
    IF m.k = "Bad" THEN
        /\ bad' = Flag("C09", "emitted frame does not decode under the published layout")
        /\ UNCHANGED <<st, hdrE, pair, reqs>>
    ELSE IF W!Enc(m) # Ev.b THEN
        /\ bad' = Flag("C09", "emitted frame is not the canonical encoding of its meaning")
        /\ UNCHANGED <<st, hdrE, pair, reqs>>
    ELSE
    CASE m.k = "Data" ->
            /\ hdrE' = [hdrE EXCEPT ![d] = m] /\ UNCHANGED <<st, pair, reqs, bad>>
      [] m.k = "PortData" ->
            LET k == <<d, m.port>>
                s == Get(st, k, NewStream)
                n == Len(m.ports)
                s1 == [s EXCEPT !.sent = @ + 4 * n, !.wopen = ~m.last, !.wcur = <<>>,
                                !.emptyP = IF n = 0 THEN @ + 1 ELSE 0]
                dup == \E i \in 1..n : <<d, m.ports[i]>> \in DOMAIN reqs /\ reqs[<<d, m.ports[i]>>].state = "open"
                why == First(<<<<k \notin DOMAIN st, "C08", "port data for a port that was never opened">>,
                   <<s.finE, "C11", "port data after SendFinish">>,
                   <<4 * n > cfg[Oth(d)].chunk, "C02", "port batch larger than the advertised chunk size">>,
                   <<s1.sent - s1.granted > cfg[Oth(d)].rbuf, "C02", "sent minus granted credit exceeds the advertised receive buffer">>,
                   <<s1.emptyP >= 3, "C03", "port-open batch emits frames without making progress">>,
                   <<dup, "C10", "port number of a pending request reused in a new request">>,
                   <<m.hasIds # (cfg[Oth(d)].version >= W!VersionPortId), "C09", "port ids sent to a peer of the wrong version">>>>) IN
            /\ st' = Put(st, k, s1)
            /\ reqs' = [q \in DOMAIN reqs \cup {<<d, m.ports[i]>> : i \in 1..n} |->
                            IF \E i \in 1..n : q = <<d, m.ports[i]>> THEN [state |-> "open", via |-> "port"] ELSE reqs[q]]
            /\ bad' = IF why = <<>> THEN bad ELSE Flag(why[1], why[2])
            /\ UNCHANGED <<hdrE, pair>>
      [] m.k = "PortCredits" ->
            LET k == CreditStream(d, m.port)
                s == Get(st, k, NewStream)
                c == W!Val(m.credits)
                s1 == [s EXCEPT !.grantedE = @ + c]
                why == First(<<<<k \notin DOMAIN st, "C08", "credits for a port that was never opened">>,
                   <<s1.grantedE > s.arrived, "C02", "more credit granted than data received">>,
                   <<s.rfinE, "C11", "credits after ReceiveFinish">>>>) IN
            /\ st' = Put(st, k, s1)
            /\ bad' = IF why = <<>> THEN bad ELSE Flag(why[1], why[2])
            /\ UNCHANGED <<hdrE, pair, reqs>>
      [] m.k = "OpenPort" ->
            LET q == <<d, m.client>>
                open == {r \in DOMAIN reqs : r[1] = d /\ reqs[r].state = "open" /\ reqs[r].via = "client"}
                why == First(<<<<q \in DOMAIN reqs /\ reqs[q].state = "open", "C10", "OpenPort for a port with a pending request">>,
                   <<<<d, m.client>> \in DOMAIN pair, "C07", "OpenPort reuses the number of an open port">>,
                   <<Cardinality(open) + 1 > cfg[Oth(d)].connect_q, "C10", "more unanswered client requests than the peer's connect queue">>,
                   <<m.hasId # (cfg[Oth(d)].version >= W!VersionPortId), "C09", "port id sent to a peer of the wrong version">>>>) IN
            /\ reqs' = Put(reqs, q, [state |-> "open", via |-> "client"])
            /\ bad' = IF why = <<>> THEN bad ELSE Flag(why[1], why[2])
            /\ UNCHANGED <<st, hdrE, pair>>
      [] m.k = "PortOpened" ->
            \* sent by the server endpoint d: its port m.server is paired with the client's port m.client
            LET q == <<Oth(d), m.client>>
                why == First(<<<<~(q \in DOMAIN reqs /\ reqs[q].state = "open"), "C10", "PortOpened without a pending request">>,
                   <<<<d, m.server>> \in DOMAIN pair, "C07", "server port number already in use by an open port">>>>) IN
            /\ reqs' = Put(reqs, q, [state |-> "accepted", via |-> Get(reqs, q, [via |-> "client"]).via])
            /\ pair' = Put(Put(pair, <<d, m.server>>, m.client), <<Oth(d), m.client>>, m.server)
            \* (a stream may already exist: the accepting side can use the port before its PortOpened leaves a blocked transport)
            /\ st' = Ensure(Ensure(st, <<d, m.client>>), <<Oth(d), m.server>>)
            /\ bad' = IF why = <<>> THEN bad ELSE Flag(why[1], why[2])
            /\ UNCHANGED hdrE
      [] m.k = "Rejected" ->
            LET q == <<Oth(d), m.client>>
                why == First(<<<<~(q \in DOMAIN reqs /\ reqs[q].state = "open"), "C10", "Rejected without a pending request">>>>) IN
            /\ reqs' = Put(reqs, q, [state |-> IF m.noPorts THEN "rejected_noports" ELSE "rejected", via |-> Get(reqs, q, [via |-> "client"]).via])
            /\ bad' = IF why = <<>> THEN bad ELSE Flag(why[1], why[2])
            /\ UNCHANGED <<st, hdrE, pair>>
      [] m.k = "SendFinish" ->
            LET k == <<d, m.port>>  s == Get(st, k, NewStream)
                why == First(<<<<k \notin DOMAIN st, "C08", "SendFinish for a port that was never opened">>,
                   <<s.finE, "C11", "SendFinish sent twice">>>>) IN
            /\ st' = Put(st, k, [s EXCEPT !.finE = TRUE])
            /\ bad' = IF why = <<>> THEN bad ELSE Flag(why[1], why[2])
            /\ UNCHANGED <<hdrE, pair, reqs>>
      [] m.k \in {"ReceiveClose", "ReceiveFinish"} ->
            LET k == CreditStream(d, m.port)  s == Get(st, k, NewStream)
                why == First(<<<<k \notin DOMAIN st, "C08", "receiver close/finish for a port that was never opened">>,
                   <<m.k = "ReceiveClose" /\ (s.closeE \/ s.rfinE), "C11", "ReceiveClose sent twice or after ReceiveFinish">>,
                   <<m.k = "ReceiveFinish" /\ s.rfinE, "C11", "ReceiveFinish sent twice">>>>) IN
            /\ st' = Put(st, k, IF m.k = "ReceiveClose" THEN [s EXCEPT !.closeE = TRUE] ELSE [s EXCEPT !.rfinE = TRUE])
            /\ bad' = IF why = <<>> THEN bad ELSE Flag(why[1], why[2])
            /\ UNCHANGED <<hdrE, pair, reqs>>
      [] OTHER -> UNCHANGED <<st, hdrE, pair, reqs, bad>>

WireEmit ==
    /\ Is("wire_emit")
    /\ LET d == Ev.dir IN
         /\ fly' = [fly EXCEPT ![d] = Append(@, [b |-> Ev.b, len |-> Ev.len])]
         /\ IF hdrE[d] # None THEN EmitPayload(d) ELSE EmitMsg(d)
    /\ UNCHANGED <<cfg, hdrD, ops, pend, poolKey, lastPool, ended, gone, cnt, misc>>

\* ------------------------------------------------------------------ wire: delivery
WireDeliver ==
    /\ Is("wire_deliver")
    /\ LET d == Ev.dir IN
       IF fly[d] = <<>> THEN
            /\ bad' = Flag("TOOL", "delivery of a frame that was never emitted") /\ UNCHANGED <<fly, hdrD, st, cnt, misc>>
       ELSE LET f == Head(fly[d]) IN
            /\ fly' = [fly EXCEPT ![d] = Tail(@)]
            /\ IF hdrD[d] # None THEN
                    LET k == <<d, hdrD[d].port>>  s == Get(st, k, NewStream) IN
                    /\ st' = Put(st, k, [s EXCEPT !.arrived = @ + W!DataCost(f.len)])
                    /\ hdrD' = [hdrD EXCEPT ![d] = None] /\ UNCHANGED <<cnt, misc>>
               ELSE LET m == W!Dec(f.b) IN
                    CASE m.k = "Data" -> hdrD' = [hdrD EXCEPT ![d] = m] /\ UNCHANGED <<st, cnt, misc>>
                      [] m.k = "PortData" ->
                            LET k == <<d, m.port>>  s == Get(st, k, NewStream) IN
                            st' = Put(st, k, [s EXCEPT !.arrived = @ + 4 * Len(m.ports)]) /\ UNCHANGED <<hdrD, cnt, misc>>
                      [] m.k = "PortCredits" ->
                            LET k == CreditStream(d, m.port)  s == Get(st, k, NewStream) IN
                            st' = Put(st, k, [s EXCEPT !.granted = @ + W!Val(m.credits)]) /\ UNCHANGED <<hdrD, cnt, misc>>
                      [] m.k = "SendFinish" ->
                            LET k == <<d, m.port>>  s == Get(st, k, NewStream) IN
                            st' = Put(st, k, [s EXCEPT !.finD = TRUE]) /\ UNCHANGED <<hdrD, cnt, misc>>
                      [] m.k = "ReceiveClose" ->
                            LET k == CreditStream(d, m.port)  s == Get(st, k, NewStream) IN
                            st' = Put(st, k, [s EXCEPT !.closeD = TRUE]) /\ UNCHANGED <<hdrD, cnt, misc>>
                      [] m.k = "ReceiveFinish" ->
                            LET k == CreditStream(d, m.port)  s == Get(st, k, NewStream) IN
                            st' = Put(st, k, [s EXCEPT !.rfinD = TRUE]) /\ UNCHANGED <<hdrD, cnt, misc>>
                      [] m.k = "PortOpened" -> cnt' = Inc(cnt, <<Oth(d), "opened">>) /\ UNCHANGED <<st, hdrD, misc>>
                      [] m.k = "Rejected" -> cnt' = Inc(cnt, <<Oth(d), IF m.noPorts THEN "rejNP" ELSE "rej">>) /\ UNCHANGED <<st, hdrD, misc>>
                      [] m.k = "ListenerFinish" -> misc' = [misc EXCEPT !.lfin = @ \cup {Oth(d)}] /\ UNCHANGED <<st, hdrD, cnt>>
                      [] OTHER -> UNCHANGED <<st, hdrD, cnt, misc>>
            /\ bad' = bad
    /\ UNCHANGED <<cfg, hdrE, pair, ops, pend, reqs, poolKey, lastPool, ended, gone>>

\* frames in flight were lost with the connection
WireDrop ==
    /\ Is("wire_drop")
    /\ fly' = [fly EXCEPT ![Ev.dir] = <<>>]
    /\ hdrD' = [hdrD EXCEPT ![Ev.dir] = None]
    /\ UNCHANGED <<cfg, hdrE, pair, st, ops, pend, reqs, poolKey, lastPool, ended, gone, cnt, misc, bad>>

\* ------------------------------------------------------------------ API
SendKinds == {"send", "try_send", "send_chunks", "connect"}
RecvKinds == {"recv_any", "recv_chunk"}
PortKinds == SendKinds \cup RecvKinds \cup {"close", "closed"}
\* remote port of a local port: from the wire (PortOpened) or, while that frame is still queued behind transport
\* back-pressure, from what the API returned for the accepted / connected port
RemoteOf(ep, port) == IF <<ep, port>> \in DOMAIN pair THEN pair[<<ep, port>>]
                      ELSE IF \E t \in misc.apiPairs : t[1] = ep /\ t[2] = port THEN (CHOOSE t \in misc.apiPairs : t[1] = ep /\ t[2] = port)[3]
                      ELSE <<>>
\* stream an operation works on
OpStream(o) == IF o.kind \in SendKinds \cup {"closed"} THEN <<o.ep, RemoteOf(o.ep, o.port)>> ELSE <<Oth(o.ep), o.port>>

ApiStart ==
    /\ Is("api_start")
    /\ LET k == IF Ev.kind \in PortKinds THEN OpStream(Ev) ELSE <<>>
           s == Get(st, k, NewStream)
           over == Has("override") /\ Ev.override
           o == IF Ev.kind \in SendKinds THEN [afterClose |-> s.closeP /\ ~over, afterRfin |-> s.rfinP, over |-> over] @@ Ev ELSE Ev IN
       ops' = Put(ops, Ev.op, o @@ [afterEnd |-> ended[Ev.ep] # "running"])
    /\ pend' = pend \cup {Ev.op}
    /\ UNCHANGED <<cfg, fly, hdrE, hdrD, pair, st, reqs, poolKey, lastPool, ended, gone, cnt, misc, bad>>

\* result of a send-like call on stream k with observation record s
SendVerdict(o, s) ==
    First(<<<<Ev.res = "ok" /\ o.afterRfin, "C11", "send succeeded although the receiver was already known to be dropped">>,
            <<Ev.res = "ok" /\ o.afterClose, "C11", "send succeeded although the receiver was already known to be closed">>,
            <<Ev.res = "err" /\ Ev.err = "closed_graceful" /\ ~s.closeP, "C11", "send failed as gracefully closed but the receiver was not closed gracefully">>,
            <<Ev.res = "err" /\ Ev.err = "closed_graceful" /\ o.over, "C11", "send with graceful-close override failed as gracefully closed">>,
            <<Ev.res = "err" /\ Ev.err = "closed_dropped" /\ ~s.rfinP, "C11", "send failed as dropped but the receiver was not dropped">>,
            <<Ev.res = "err" /\ Ev.err = "chmux" /\ ~misc.faulted /\ ended[o.ep] = "running", "C11", "send failed with a multiplexer error on a healthy connection">>,
            <<Ev.res = "err" /\ Ev.err = "chmux" /\ ~misc.faulted /\ ended[o.ep] = "running", "C06", "send failed with a multiplexer error on a healthy connection">>>>)

ApiDone ==
    /\ Is("api_done")
    /\ pend' = pend \ {Ev.op}
    /\ IF Ev.op \notin DOMAIN ops THEN UNCHANGED <<st, cnt, misc, bad>>
       ELSE LET o == ops[Ev.op] IN
         IF o.afterEnd /\ Ev.res = "ok" /\ o.kind \in SendKinds \cup {"client_connect", "accept", "req_accept"} THEN
              /\ bad' = Flag("C06", "operation started after the dispatcher terminated completed successfully")
              /\ UNCHANGED <<st, cnt, misc>>
         ELSE IF o.kind \in SendKinds THEN
              LET k == OpStream(o)  s == Get(st, k, NewStream)
                  msg == IF o.kind = "connect" THEN [t |-> "ports", n |-> o.n] ELSE [t |-> "data", b |-> o.data]
                  commit == Ev.res = "ok" /\ ~(o.kind = "connect" /\ o.n = 0)
                  v == SendVerdict(o, s)
                  why == IF k[2] = <<>> /\ Ev.res = "ok" /\ Checked("C10") THEN <<"C10", "send completed on a port that neither the wire nor the API ever opened">> ELSE v IN
              /\ st' = IF commit THEN Put(st, k, [s EXCEPT !.committed = Append(@, msg)]) ELSE st
              /\ bad' = IF why = <<>> THEN bad ELSE Flag(why[1], why[2])
              /\ UNCHANGED <<cnt, misc>>
         ELSE IF o.kind \in RecvKinds THEN
              LET k == OpStream(o)  s == Get(st, k, NewStream)
                  s1 == CASE Ev.res = "data" -> [s EXCEPT !.delivered = Append(@, [t |-> "data", b |-> Ev.data])]
                          [] Ev.res = "requests" -> [s EXCEPT !.delivered = Append(@, [t |-> "ports", n |-> Ev.n])]
                          [] Ev.res = "chunks" -> [s EXCEPT !.rchunk = TRUE, !.rcur = <<>>]
                          [] Ev.res = "chunk" -> [s EXCEPT !.rcur = @ \o Ev.data]
                          [] Ev.res = "end" -> [s EXCEPT !.delivered = Append(@, [t |-> "data", b |-> s.rcur]), !.rcur = <<>>, !.rchunk = FALSE]
                          [] Ev.res = "cancelled" -> [s EXCEPT !.rcur = <<>>, !.rchunk = FALSE]
                          [] Ev.res = "none" -> [s EXCEPT !.eos = TRUE]
                          [] OTHER -> s
                  lostc == Ev.res = "err" /\ Ev.err = "chmux" /\ ~misc.faulted /\ ended[o.ep] = "running"
                  why == First(<<<<~IsPrefix(s1.delivered, s1.committed), "C01", "receiver obtained a message that is not the next completed send">>,
                                 <<lostc /\ s1.delivered # s1.committed, "C01", "completed send lost: the connection failed on a healthy transport">>,
                                 <<Ev.res = "none" /\ s1.delivered # s1.committed, "C11", "end of stream with completed sends missing">>,
                                 <<Ev.res = "none" /\ ~s.finD, "C11", "end of stream although the sender was not dropped">>,
                                 <<lostc, "C11", "receive failed with a multiplexer error on a healthy connection">>,
                                 <<lostc, "C06", "receive failed with a multiplexer error on a healthy connection">>>>) IN
              /\ st' = Put(st, k, s1)
              /\ bad' = IF why = <<>> THEN bad ELSE Flag(why[1], why[2])
              /\ UNCHANGED <<cnt, misc>>
         ELSE IF o.kind = "closed" THEN
              LET k == OpStream(o)  s == Get(st, k, NewStream) IN
              /\ bad' = IF ~(s.closeP \/ s.rfinP) /\ ~misc.faulted /\ ended[o.ep] = "running"
                        THEN Flag("C11", "closed() resolved although the remote receiver is neither closed nor dropped") ELSE bad
              /\ UNCHANGED <<st, cnt, misc>>
         ELSE IF o.kind = "close" /\ Ev.res = "ok" THEN
              \* close() of a receiver completed: the close notification must (have) go(ne) out to the sender
              /\ misc' = [misc EXCEPT !.closedApi = @ \cup {OpStream(o)}]
              /\ UNCHANGED <<st, cnt, bad>>
         ELSE IF o.kind = "client_connect" THEN
              IF Ev.res = "ok" THEN
                   /\ misc' = [misc EXCEPT !.apiPairs = @ \cup {<<o.ep, Ev.local, Ev.remote>>}]
                   /\ cnt' = Inc(cnt, <<o.ep, "connOk">>)
                   /\ bad' = (IF Get(pair, <<o.ep, Ev.local>>, <<>>) # Ev.remote THEN Flag("C10", "connect returned a port pair that the wire did not pair")
                              ELSE IF Get(cnt, <<o.ep, "connOk">>, 0) + 1 > Get(cnt, <<o.ep, "opened">>, 0) THEN Flag("C10", "more accepted connects than PortOpened frames received")
                              ELSE bad)
                   /\ UNCHANGED st
              ELSE IF Ev.res = "err" THEN
                   LET name == IF Ev.err = "rejected" THEN "connRej" ELSE IF Ev.err = "remote_ports" THEN "connRNP" ELSE "connOther"
                       c1 == Inc(cnt, <<o.ep, name>>)
                       why == First(<<<<Ev.err = "rejected" /\ o.ep \notin misc.lfin /\ c1[<<o.ep, name>>] > Get(cnt, <<o.ep, "rej">>, 0), "C10", "connect refused as rejected without a matching Rejected frame or dropped listener">>,
                   <<Ev.err = "remote_ports" /\ c1[<<o.ep, name>>] > Get(cnt, <<o.ep, "rejNP">>, 0), "C10", "connect refused for exhausted remote ports without a matching Rejected frame">>,
                   <<Ev.err = "chmux" /\ ~misc.faulted /\ ended[o.ep] = "running", "C10", "connect failed with a multiplexer error on a healthy connection">>,
                   <<Ev.err \in {"local_ports", "too_many"} /\ o.wait, "C10", "waiting connect refused for a local resource limit">>>>) IN
                   /\ cnt' = c1
                   /\ bad' = (IF why = <<>> THEN bad ELSE Flag(why[1], why[2]))
                   /\ UNCHANGED <<st, misc>>
              ELSE UNCHANGED <<st, cnt, misc, bad>>
         ELSE IF o.kind \in {"accept", "req_accept"} /\ Ev.res = "ok" THEN
              /\ misc' = [misc EXCEPT !.apiPairs = @ \cup {<<o.ep, Ev.local, Ev.remote>>}]
              /\ UNCHANGED <<st, cnt, bad>>
         ELSE IF o.kind \in {"accept", "inspect", "req_accept"} /\ Ev.res = "err" THEN
              /\ bad' = IF Ev.err = "chmux" /\ ~misc.faulted /\ ended[o.ep] = "running"
                        THEN Flag("C10", "listener failed with a multiplexer error on a healthy connection") ELSE bad
              /\ UNCHANGED <<st, cnt, misc>>
         ELSE UNCHANGED <<st, cnt, misc, bad>>
    /\ UNCHANGED <<cfg, fly, hdrE, hdrD, pair, ops, reqs, poolKey, lastPool, ended, gone>>

ApiCancel ==
    /\ Is("api_cancel") /\ pend' = pend \ {Ev.op}
    /\ UNCHANGED <<cfg, fly, hdrE, hdrD, pair, st, ops, reqs, poolKey, lastPool, ended, gone, cnt, misc, bad>>

ApiPanic ==
    /\ Is("api_panic") /\ pend' = pend \ {Ev.op}
    /\ LET why == First(<<<<TRUE, "C08", "panic inside an API call">>,
                          <<TRUE, "C06", "an API call panicked instead of failing with an error">>,
                          <<TRUE, "C01", "panic inside an API call">>,
                          <<TRUE, "C03", "panic inside an API call">>,
                          <<TRUE, "C07", "panic inside an API call">>,
                          <<TRUE, "C10", "panic inside an API call">>,
                          <<TRUE, "C11", "panic inside an API call">>>>) IN
       bad' = IF why = <<>> THEN bad ELSE Flag(why[1], why[2])
    /\ UNCHANGED <<cfg, fly, hdrE, hdrD, pair, st, ops, reqs, poolKey, lastPool, ended, gone, cnt, misc>>

\* ------------------------------------------------------------------ quiescence: liveness verdicts
Waiting(k) == \E i \in pend : ops[i].kind \in RecvKinds /\ OpStream(ops[i]) = k
Sending(k) == \E i \in pend : ops[i].kind \in SendKinds /\ OpStream(ops[i]) = k
OverSending(k) == \E i \in pend : ops[i].kind \in SendKinds /\ OpStream(ops[i]) = k /\ ops[i].over
PendConn(e) == Cardinality({i \in pend : ops[i].kind = "client_connect" /\ ops[i].ep = e /\ ops[i].wait})
PendAccept(e) == \E i \in pend : ops[i].kind = "accept" /\ ops[i].ep = e
Unanswered(e) == Cardinality({q \in DOMAIN reqs : q[1] = e /\ reqs[q].state = "open" /\ reqs[q].via = "client"})
WatchingClosed(k) == \E i \in pend : ops[i].kind = "closed" /\ OpStream(ops[i]) = k
PoolOf(k) == LET p == Get(pair, <<Oth(k[1]), k[2]>>, <<>>)  key == Get(poolKey, <<k[1], p>>, 0) IN Get(lastPool, key, 0 - 1)
PairsOK == \A t \in misc.apiPairs : Get(pair, <<t[1], t[2]>>, <<>>) = t[3]

Quiescent ==
    /\ Is("quiescent")
    /\ LET stuck == {k \in DOMAIN st : Sending(k) /\ Waiting(k) /\ ~st[k].closeD /\ ~st[k].rfinD}
           lost == {k \in DOMAIN st : Waiting(k) /\ st[k].delivered # st[k].committed}
           leak == {k \in DOMAIN st : ~Sending(k) /\ PoolOf(k) >= 0 /\ ~st[k].closeE /\ ~st[k].rfinE
                                      /\ PoolOf(k) # cfg[Oth(k[1])].rbuf - (st[k].sent - st[k].granted)}
           \* receiver side: every credit amount the returner decided to return has reached the wire
           rleak == {k \in DOMAIN st : Waiting(k) /\ ~st[k].rfinE /\ <<Oth(k[1]), k[2], "mon">> \in DOMAIN poolKey
                                       /\ Get(lastPool, poolKey[<<Oth(k[1]), k[2], "mon">>], 0) # st[k].grantedE}
           noeos == {k \in DOMAIN st : Waiting(k) /\ st[k].finD}
           noclosed == {k \in DOMAIN st : WatchingClosed(k) /\ (st[k].closeD \/ st[k].rfinD)}
           deadsend == {k \in DOMAIN st : Sending(k) /\ ~OverSending(k) /\ (st[k].closeD \/ st[k].rfinD)}
           overstuck == {k \in DOMAIN st : OverSending(k) /\ Waiting(k) /\ st[k].closeD /\ ~st[k].rfinD /\ ~st[k].rfinE}
           fp == IF Has("free_ports") THEN Ev.free_ports ELSE <<FALSE, FALSE>>
           heldN == IF Has("held") THEN Ev.held ELSE <<0, 0>>
           connStuck == {e \in {1, 2} : fp[e] /\ PendConn(e) > Unanswered(e) /\ Unanswered(e) < cfg[Oth(e)].connect_q /\ ended[e] = "running"}
           connDead == {e \in {1, 2} : fp[e] /\ e \in misc.lfin /\ ended[e] = "running" /\ \E i \in pend : ops[i].kind = "client_connect" /\ ops[i].ep = e}
           closeStuck == \E i \in pend : ops[i].kind = "close" /\ ended[ops[i].ep] = "running"
           accStuck == {e \in {1, 2} : fp[e] /\ PendAccept(e) /\ Unanswered(Oth(e)) > heldN[e] /\ ended[e] = "running"}
           closeLost == {k \in misc.closedApi : k \in DOMAIN st /\ ~st[k].closeE /\ ~st[k].rfinE}
           settled == Has("settled") /\ Ev.settled
           live == ~misc.faulted /\ ~Has("late")     \* liveness verdicts apply (healthy transport, main quiescence point)
           why == First(<<<<settled /\ pend # {}, "C06", "operation still pending after the transport failed and the timeout elapsed">>,
                          <<live /\ fly # <<<<>>, <<>>>>, "TOOL", "frames in flight at quiescence">>,
                          <<live /\ stuck # {}, "C03", "operation still pending although the receiver has consumed everything">>,
                          <<live /\ lost # {}, "C01", "completed send not delivered although the receiver keeps receiving">>,
                          <<live /\ leak # {}, "C03", "credit leak: sender pool differs from buffer minus outstanding bytes">>,
                          <<live /\ rleak # {}, "C03", "credit leak: credit the receiver decided to return never reached the wire">>,
                          <<live /\ closeStuck, "C03", "closing a receiver is blocked by another operation's abandoned place in the dispatcher queue">>,
                          <<live /\ closeStuck, "C11", "closing a receiver never completes on a healthy connection">>,
                          <<live /\ closeLost # {}, "C11", "close() of a receiver completed but no close notification was ever sent to the sender">>,
                          <<live /\ noeos # {}, "C11", "receiver still waiting although the sender's finish was delivered">>,
                          <<live /\ noclosed # {}, "C11", "closed() still pending although the receiver's close/finish was delivered">>,
                          <<live /\ deadsend # {}, "C11", "send still pending although the receiver's close/finish was delivered">>,
                          <<live /\ overstuck # {}, "C11", "send with graceful-close override still pending although the closed receiver keeps receiving">>,
                          <<live /\ connStuck # {}, "C10", "connect still waiting although a local port and a request slot are free">>,
                          <<live /\ connStuck # {}, "C07", "a connect is still waiting although a port number was released (not reclaimed for the waiter)">>,
                          <<live /\ connDead # {}, "C10", "connect still pending although the remote listener is known to be gone">>,
                          <<live /\ accStuck # {}, "C10", "listener does not accept although a request is queued and a port is free">>,
                          <<live /\ accStuck # {}, "C07", "a queued request was left behind: neither accepted nor rejected although a port is free">>,
                          <<live /\ ~PairsOK, "C10", "accepted port pair differs from the pairing on the wire">>>>) IN
       /\ bad' = (IF why = <<>> THEN bad ELSE Flag(why[1], why[2]))
       /\ misc' = [misc EXCEPT !.early = @ \/ (settled /\ ~Has("late"))]
    /\ UNCHANGED <<cfg, fly, hdrE, hdrD, pair, st, ops, pend, reqs, poolKey, lastPool, ended, gone, cnt>>

Livelock ==
    /\ Is("livelock")
    /\ bad' = Flag("C03", "scenario does not reach quiescence (frames emitted without progress)")
    /\ UNCHANGED <<cfg, fly, hdrE, hdrD, pair, st, ops, pend, reqs, poolKey, lastPool, ended, gone, cnt, misc>>

\* ------------------------------------------------------------------ lifecycle
Drop ==
    /\ Is("drop") /\ gone' = gone \cup {IF Has("port") THEN <<Ev.ep, Ev.what, Ev.port>> ELSE <<Ev.ep, Ev.what>>}
    /\ UNCHANGED <<cfg, fly, hdrE, hdrD, pair, st, ops, pend, reqs, poolKey, lastPool, ended, cnt, misc, bad>>

AllDropped ==
    /\ Is("all_dropped") /\ misc' = [misc EXCEPT !.allDropped = TRUE]
    /\ UNCHANGED <<cfg, fly, hdrE, hdrD, pair, st, ops, pend, reqs, poolKey, lastPool, ended, gone, cnt, bad>>

Fault ==
    /\ Is("fault") /\ misc' = [misc EXCEPT !.faulted = TRUE, !.fkind = IF @ = "" /\ Has("dir") THEN Ev.kind ELSE @, !.fdir = IF @ = 0 /\ Has("dir") THEN Ev.dir ELSE @]
    /\ UNCHANGED <<cfg, fly, hdrE, hdrD, pair, st, ops, pend, reqs, poolKey, lastPool, ended, gone, cnt, bad>>

RunEnd ==
    /\ Is("run_end")
    /\ ended' = [ended EXCEPT ![Ev.ep] = Ev.res]
    /\ LET healthyFail == ~misc.faulted /\ Ev.res \notin {"ok", "running"}
           why == First(<<<<Ev.res = "panic", "C08", "dispatcher panicked">>,
                          <<misc.allDropped /\ ~misc.faulted /\ Ev.res # "ok", "C07", "dispatcher did not finish successfully after everything was dropped">>,
                          <<healthyFail, "C06", "dispatcher failed on a healthy transport">>,
                          <<healthyFail /\ Ev.res = "protocol", "C02", "dispatcher ended with a protocol error between two unmodified endpoints">>,
                          <<healthyFail /\ Ev.res = "protocol", "C10", "dispatcher ended with a protocol error between two unmodified endpoints">>,
                          <<healthyFail /\ Ev.res = "protocol", "C11", "dispatcher ended with a protocol error between two unmodified endpoints">>,
                          <<misc.early /\ misc.fkind = "sink_err" /\ Ev.ep = misc.fdir /\ Ev.res # "sink", "C06", "dispatcher whose sink failed did not terminate with the sink error">>,
                          <<misc.early /\ misc.fkind = "stream_err" /\ Ev.ep = Oth(misc.fdir) /\ Ev.res # "stream", "C06", "dispatcher whose stream failed did not terminate with the stream error">>,
                          <<misc.early /\ misc.fkind = "stream_end" /\ Ev.ep = Oth(misc.fdir) /\ Ev.res # "closed", "C06", "dispatcher whose stream ended did not terminate with end-of-stream">>,
                          <<misc.faulted /\ Ev.res = "running", "C06", "dispatcher still running after the transport failed and the timeout elapsed">>>>) IN
       bad' = IF why = <<>> THEN bad ELSE Flag(why[1], why[2])
    /\ UNCHANGED <<cfg, fly, hdrE, hdrD, pair, st, ops, pend, reqs, poolKey, lastPool, gone, cnt, misc>>

AllocCheck ==
    /\ Is("alloc_check")
    /\ bad' = IF Ev.got # Ev.max THEN Flag("C07", "port numbers not reclaimed after everything was dropped") ELSE bad
    /\ UNCHANGED <<cfg, fly, hdrE, hdrD, pair, st, ops, pend, reqs, poolKey, lastPool, ended, gone, cnt, misc>>

Tasks ==
    /\ Is("tasks")
    /\ LET open == {q \in DOMAIN reqs : reqs[q].state = "open"} IN
       LET why == First(<<<<Ev.alive # 0, "C07", "background tasks left behind after shutdown">>,
                          <<Ev.alive # 0, "C06", "background tasks left behind after shutdown">>,
                          <<FALSE, "C10", "unused">>>>) IN
       bad' = IF why = <<>> THEN bad ELSE Flag(why[1], why[2])
    /\ UNCHANGED <<cfg, fly, hdrE, hdrD, pair, st, ops, pend, reqs, poolKey, lastPool, ended, gone, cnt, misc>>

\* H2: the dispatcher processed a ReceiveClose / ReceiveFinish for its local port (sender side learns of it)
HRxClose ==
    /\ l <= Len(Rec) /\ Ev.ev \in {"h_mux_rx_receive_close", "h_mux_rx_receive_finish"} /\ l' = l + 1
    /\ LET k == <<Ev.who, Get(pair, <<Ev.who, Ev.local>>, <<>>)>>  s == Get(st, k, NewStream) IN
       st' = IF k \in DOMAIN st
               THEN Put(st, k, IF Ev.ev = "h_mux_rx_receive_close" THEN [s EXCEPT !.closeP = TRUE, !.cls = IF @ = "open" THEN "graceful" ELSE @]
                                                                   ELSE [s EXCEPT !.rfinP = TRUE, !.cls = IF @ = "open" THEN "dropped" ELSE @])
               ELSE st
    /\ UNCHANGED <<cfg, fly, hdrE, hdrD, pair, ops, pend, reqs, poolKey, lastPool, ended, gone, cnt, misc, bad>>

\* H2: the dispatcher freed a port: not before both directions are finished
HPortFree ==
    /\ Is("h_port_free")
    /\ LET e == Ev.who  p == Ev.local
           kOut == <<e, Get(pair, <<e, p>>, <<>>)>>  kIn == <<Oth(e), p>>
           known == \E t \in misc.apiPairs : t[1] = e /\ t[2] = p
           both == kOut \in DOMAIN st /\ kIn \in DOMAIN st
           sIn == Get(st, kIn, NewStream)  sOut == Get(st, kOut, NewStream)
           why == First(<<<<both /\ ~(sIn.finD /\ sOut.rfinD), "C07", "port freed before the peer finished both directions">>,
                          <<both /\ known /\ ~(<<e, "sender", p>> \in gone /\ <<e, "receiver", p>> \in gone), "C07", "port freed while a local handle is still alive">>>>) IN
       bad' = IF why = <<>> THEN bad ELSE Flag(why[1], why[2])
    /\ UNCHANGED <<cfg, fly, hdrE, hdrD, pair, st, ops, pend, reqs, poolKey, lastPool, ended, gone, cnt, misc>>

\* ------------------------------------------------------------------ H2 hooks: sender credit pool
HPortCreate ==
    /\ Is("h_port_create")
    /\ poolKey' = Put(Put(poolKey, <<Ev.who, Ev.local>>, Ev.pool_key), <<Ev.who, Ev.local, "mon">>, Ev.mon_key)
    \* lastPool[pool key] = pool size last reported; lastPool[monitor key] = sum of credits the returner decided to return
    /\ lastPool' = Put(Put(lastPool, Ev.pool_key, IF Ev.who \in {1, 2} /\ cfg # <<>> THEN cfg[Oth(Ev.who)].rbuf ELSE 0), Ev.mon_key, 0)
    /\ UNCHANGED <<cfg, fly, hdrE, hdrD, pair, st, ops, pend, reqs, ended, gone, bad, cnt, misc>>

HPool ==
    /\ l <= Len(Rec) /\ Ev.ev \in {"h_credit_grant", "h_credit_drop", "h_credit_provide"} /\ l' = l + 1
    /\ lastPool' = Put(lastPool, Ev.key, Ev.pool)
    /\ UNCHANGED <<cfg, fly, hdrE, hdrD, pair, st, ops, pend, reqs, poolKey, ended, gone, bad, cnt, misc>>

HConsume ==
    /\ Is("h_credit_consume")
    /\ lastPool' = Put(lastPool, Ev.key, Get(lastPool, Ev.key, 0) + Ev.ret)
    /\ UNCHANGED <<cfg, fly, hdrE, hdrD, pair, st, ops, pend, reqs, poolKey, ended, gone, cnt, misc, bad>>

Known == {"reset", "wire_emit", "wire_deliver", "api_start", "api_done", "api_cancel", "api_panic", "quiescent", "livelock",
          "drop", "run_end", "h_port_create", "h_credit_grant", "h_credit_drop", "h_credit_provide", "h_credit_consume",
          "all_dropped", "fault", "wire_drop", "alloc_check", "tasks", "h_mux_rx_receive_close", "h_mux_rx_receive_finish", "h_port_free"}
Skip == /\ l <= Len(Rec) /\ Ev.ev \notin Known /\ l' = l + 1
        /\ UNCHANGED <<cfg, fly, hdrE, hdrD, pair, st, ops, pend, reqs, poolKey, lastPool, ended, gone, bad, cnt, misc>>

Next == Reset \/ WireEmit \/ WireDeliver \/ ApiStart \/ ApiDone \/ ApiCancel \/ ApiPanic \/ Quiescent \/ Livelock
        \/ Drop \/ RunEnd \/ HPortCreate \/ HPool \/ Skip \/ AllDropped \/ Fault \/ WireDrop \/ AllocCheck \/ Tasks \/ HRxClose \/ HPortFree \/ HConsume
Spec == Init /\ [][Next]_vars

\* ------------------------------------------------------------------ properties evaluated at every step
Ok(p) == bad = <<>> \/ bad[1] # p
Inv_TOOL == Ok("TOOL")
Inv_C01 == Ok("C01")
Inv_C02 == Ok("C02")
Inv_C03 == Ok("C03")
Inv_C06 == Ok("C06")
Inv_C07 == Ok("C07")
Inv_C08 == Ok("C08")
Inv_C09 == Ok("C09")
Inv_C10 == Ok("C10")
Inv_C11 == Ok("C11")
\* the same formulas as in the exhaustive models, over the reconstructed observation state
Inv_Prefix == Checked("C01") => \A k \in DOMAIN st : IsPrefix(st[k].delivered, st[k].committed)
Inv_Bound == Checked("C02") /\ cfg # <<>> => \A k \in DOMAIN st : BoundOK(st[k].sent, st[k].granted, cfg[Oth(k[1])].rbuf)
Inv_Grant == Checked("C02") => \A k \in DOMAIN st : st[k].grantedE <= st[k].arrived

Accepted == IF TLCGet("stats").diameter - 1 = Len(Rec) THEN TRUE
            ELSE Print(<<"TRACE NOT CONSUMED", TLCGet("stats").diameter - 1, Len(Rec)>>, FALSE)
=============================================================================
