---------------------------- MODULE RwLockTrace ----------------------------
(***************************************************************************)
(* Trace specification for the remote read/write lock (C17).  Events are   *)
(* what the lock's users see, in their real order on the single-threaded   *)
(* harness: request started, guard acquired (with the value seen), guard   *)
(* released, commit started / confirmed, guard dropped, request cancelled. *)
(* A guard is logged as acquired after it was obtained and as released     *)
(* before it is dropped, so logged hold intervals lie inside the real ones *)
(* and any overlap that is logged is real.  The state below is the         *)
(* observable projection of RwLock.tla (value, committed history, who      *)
(* holds what); the invariants are the ones checked on the model.          *)
(***************************************************************************)
EXTENDS Integers, Sequences, FiniteSets, TLC, Json, IOUtils

Rec == ndJsonDeserialize(IOEnv.TRACE)
VARIABLES l, ops, readHeld, writeHeld, started, done, maybe, cut, bad
vars == <<l, ops, readHeld, writeHeld, started, done, maybe, cut, bad>>

Ev == Rec[l]
Has(f) == f \in DOMAIN Ev
Checked(p) == IOEnv.CHECK = "ALL" \/ p = IOEnv.CHECK \/ p = "TOOL"
Flag(p, why) == IF bad = <<>> /\ Checked(p) /\ PrintT("VIOLATION property=" \o p \o " line=" \o ToString(l) \o " reason=" \o why) THEN <<p, why, l>> ELSE bad
Is(e) == l <= Len(Rec) /\ Ev.ev = e /\ l' = l + 1
Put(f, k, v) == IF k \in DOMAIN f THEN [f EXCEPT ![k] = v] ELSE f @@ (k :> v)

\* started: values of the commits begun, in order (index 0 = the initial value 0); done: number of confirmed commits
Idx(v) == IF v = 0 THEN 0 ELSE IF \E i \in 1..Len(started) : started[i] = v THEN CHOOSE i \in 1..Len(started) : started[i] = v ELSE 0 - 1

Init == l = 1 /\ ops = <<>> /\ readHeld = {} /\ writeHeld = {} /\ started = <<>> /\ done = 0 /\ maybe = FALSE /\ cut = FALSE /\ bad = <<>>
Reset == /\ Is("reset") /\ ops' = <<>> /\ readHeld' = {} /\ writeHeld' = {} /\ started' = <<>> /\ done' = 0 /\ maybe' = FALSE /\ cut' = FALSE /\ bad' = bad

Start == /\ Is("rw_start") /\ ops' = Put(ops, Ev.op, [kind |-> Ev.kind, doneAtStart |-> done, ep |-> Ev.ep])
         /\ UNCHANGED <<readHeld, writeHeld, started, done, maybe, cut, bad>>

Remote(op) == op \in DOMAIN ops /\ ops[op].ep # 1
Acq == /\ Is("rw_acq")
       /\ LET o == ops[Ev.op]  v == Ev.value  i == Idx(v) IN
          IF cut /\ o.ep # 1 THEN UNCHANGED <<readHeld, writeHeld, bad>>     \* the cut-off endpoint only has its stale cache
          ELSE IF o.kind = "read" THEN
               /\ readHeld' = readHeld \cup {Ev.op} /\ UNCHANGED writeHeld
               /\ bad' = IF writeHeld # {} THEN Flag("C17", "read guard obtained while a write guard is held")
                         ELSE IF i < 0 THEN Flag("C17", "read returned a value that was never committed")
                         ELSE IF ~maybe /\ i < o.doneAtStart THEN Flag("C17", "read returned a value older than the one committed before the read started")
                         ELSE bad
          ELSE /\ writeHeld' = writeHeld \cup {Ev.op} /\ UNCHANGED readHeld
               /\ bad' = IF writeHeld # {} THEN Flag("C17", "two write guards at the same time")
                         ELSE IF readHeld # {} THEN Flag("C17", "write guard obtained while a read guard is held")
                         ELSE IF ~maybe /\ i # Len(started) THEN Flag("C17", "write guard does not carry the most recently committed value (lost or phantom write)")
                         ELSE bad
       /\ UNCHANGED <<ops, started, done, maybe, cut>>

Rel == /\ Is("rw_rel") /\ readHeld' = readHeld \ {Ev.op}
       /\ UNCHANGED <<ops, writeHeld, started, done, maybe, cut, bad>>
\* commit() consumes the guard: from here on the value travels to the owner, which may serve other requests
\* as soon as it has stored it (before the confirmation reaches the writer)
CommitStart == /\ Is("rw_commit_start") /\ started' = Append(started, Ev.value) /\ writeHeld' = writeHeld \ {Ev.op}
               /\ maybe' = (maybe \/ (cut /\ Remote(Ev.op)))
               /\ UNCHANGED <<ops, readHeld, done, cut, bad>>
CommitDone == /\ Is("rw_commit_done") /\ UNCHANGED writeHeld
              /\ IF Ev.ok THEN done' = Len(started) /\ UNCHANGED maybe
                 ELSE \* the confirmation was lost: the value may or may not have been stored
                      /\ maybe' = TRUE /\ UNCHANGED done
              /\ bad' = IF ~Ev.ok /\ ~cut THEN Flag("C17", "commit failed although the owner is reachable") ELSE bad
              /\ UNCHANGED <<ops, readHeld, started, cut>>
DropW == /\ Is("rw_drop") /\ writeHeld' = writeHeld \ {Ev.op}
         /\ UNCHANGED <<ops, readHeld, started, done, maybe, cut, bad>>
Err == /\ Is("rw_err")
       /\ bad' = IF ~cut THEN Flag("C17", "lock request failed although the owner is reachable") ELSE bad
       /\ UNCHANGED <<ops, readHeld, writeHeld, started, done, maybe, cut>>
Fault == /\ Is("fault") /\ cut' = TRUE
         \* guards held across the cut connection are gone from the owner's point of view; a commit in flight may or may not arrive
         /\ readHeld' = {o \in readHeld : ~Remote(o)} /\ writeHeld' = {o \in writeHeld : ~Remote(o)}
         /\ maybe' = (maybe \/ \E o \in writeHeld : Remote(o)) 
         /\ UNCHANGED <<ops, started, done, bad>>
End == /\ Is("rw_end")
       /\ bad' = IF Ev.pending > 0 THEN Flag("C17", "lock requests still pending although every guard was released (deadlock)") ELSE bad
       /\ UNCHANGED <<ops, readHeld, writeHeld, started, done, maybe, cut>>

Known == {"reset", "rw_start", "rw_acq", "rw_rel", "rw_commit_start", "rw_commit_done", "rw_drop", "rw_err", "fault", "rw_end"}
Skip == /\ l <= Len(Rec) /\ Ev.ev \notin Known /\ l' = l + 1 /\ UNCHANGED <<ops, readHeld, writeHeld, started, done, maybe, cut, bad>>
Next == Reset \/ Start \/ Acq \/ Rel \/ CommitStart \/ CommitDone \/ DropW \/ Err \/ Fault \/ End \/ Skip
Spec == Init /\ [][Next]_vars

Inv_C17 == bad = <<>> \/ bad[1] # "C17"
Inv_TOOL == bad = <<>> \/ bad[1] # "TOOL"
\* the model's exclusion invariant on the reconstructed state
Inv_Excl == cut \/ (Cardinality(writeHeld) <= 1 /\ (writeHeld # {} => readHeld = {}))
Accepted == IF TLCGet("stats").diameter - 1 = Len(Rec) THEN TRUE
            ELSE Print(<<"TRACE NOT CONSUMED", TLCGet("stats").diameter - 1, Len(Rec)>>, FALSE)
=============================================================================
