-------------------------------- MODULE Lazy --------------------------------
(***************************************************************************)
(* Lazily transferred value or blob (C20): the provider keeps the value;   *)
(* a fetch makes it send the value as one chunked message of K chunks, the *)
(* last chunk carrying the end-of-message mark.  The lazy reference may    *)
(* have been forwarded over F endpoints, each of which relays chunk by     *)
(* chunk.  Connection 0 (provider - first endpoint) may be cut at any      *)
(* time; a relay that loses its upstream in the middle of a message must   *)
(* abandon the message (no end mark), so that the fetch fails.             *)
(* Deviation FinishCancelled: a relay closes a cancelled message with an   *)
(* end mark (seeded change C20_m2): the fetch returns a truncated value.   *)
(***************************************************************************)
EXTENDS Integers, Sequences, FiniteSets, TLC
CONSTANTS K, F, FinishCancelled
VARIABLES sent,     \* chunks the provider has put on connection 0
          at,       \* hop -> number of chunks that reached endpoint hop (1..F+1; F+1 is the fetching endpoint)
          ended,    \* hop -> end mark reached endpoint hop
          cut,      \* connection 0 is cut
          result    \* "none" | "ok" | "err"
vars == <<sent, at, ended, cut, result>>
Hops == 1..(F + 1)
Init == sent = 0 /\ at = [h \in Hops |-> 0] /\ ended = [h \in Hops |-> FALSE] /\ cut = FALSE /\ result = "none"
ProviderSend == /\ ~cut /\ sent < K /\ sent' = sent + 1 /\ UNCHANGED <<at, ended, cut, result>>
\* delivery on connection 0
Deliver0 == /\ ~cut /\ at[1] < sent /\ at' = [at EXCEPT ![1] = @ + 1]
            /\ ended' = [ended EXCEPT ![1] = (at[1] + 1 = K)] /\ UNCHANGED <<sent, cut, result>>
\* relay from endpoint h to h+1
Relay(h) == /\ h \in 1..F /\ at[h + 1] < at[h]
            /\ at' = [at EXCEPT ![h + 1] = @ + 1] /\ ended' = [ended EXCEPT ![h + 1] = (ended[h] /\ at[h + 1] + 1 = at[h])]
            /\ UNCHANGED <<sent, cut, result>>
\* the end mark alone (everything else was relayed already)
RelayEnd(h) == /\ h \in 1..F /\ at[h + 1] = at[h] /\ ended[h] /\ ~ended[h + 1]
               /\ ended' = [ended EXCEPT ![h + 1] = TRUE] /\ UNCHANGED <<sent, at, cut, result>>
Cut == /\ ~cut /\ cut' = TRUE /\ UNCHANGED <<sent, at, ended, result>>
\* deviation: endpoint 1 lost its upstream mid-message and closes the relayed message normally
FinishBad == /\ FinishCancelled /\ F >= 1 /\ cut /\ ~ended[1] /\ at[2] = at[1] /\ ~ended[2]
             /\ ended' = [ended EXCEPT ![2] = TRUE] /\ UNCHANGED <<sent, at, cut, result>>
\* the fetching endpoint: a complete message is the value, a broken transfer is an error
FetchOk == /\ result = "none" /\ ended[F + 1] /\ result' = "ok" /\ UNCHANGED <<sent, at, ended, cut>>
FetchErr == /\ result = "none" /\ cut /\ ~ended[F + 1] /\ \A h \in 1..F : at[h + 1] = at[h]
            /\ ~(FinishCancelled /\ F >= 1 /\ ~ended[2] /\ ~ended[1])
            /\ result' = "err" /\ UNCHANGED <<sent, at, ended, cut>>
Next == ProviderSend \/ Deliver0 \/ Cut \/ FinishBad \/ FetchOk \/ FetchErr \/ \E h \in 1..F : Relay(h) \/ RelayEnd(h)
Spec == Init /\ [][Next]_vars /\ WF_vars(ProviderSend) /\ WF_vars(Deliver0) /\ WF_vars(FetchOk) /\ WF_vars(FetchErr)
             /\ WF_vars(FinishBad) /\ \A h \in 1..F : WF_vars(Relay(h)) /\ WF_vars(RelayEnd(h))
\* C20: a fetched value equals what was provided (all K chunks), otherwise the fetch is an error - never a truncated value
C20_NeverTruncated == result = "ok" => at[F + 1] = K
\* C20: the fetch terminates
C20_FetchTerminates == <>(result # "none")
=============================================================================
