------------------------------- MODULE Handle -------------------------------
(***************************************************************************)
(* Handles (C20): a value lives on its origin endpoint; handle copies only *)
(* carry an id.  Sending a copy away registers the value in the origin's   *)
(* per-connection storage under the id; a copy arriving at the origin      *)
(* re-attaches the stored entry (and takes it out of the storage), a copy  *)
(* arriving anywhere else is a remote reference.  Access succeeds only     *)
(* through an attached copy, at the original type, while the value has not *)
(* been taken.  The value is released when the provider is dropped or no   *)
(* copy is left anywhere.  Deviation AttachAnywhere: a copy arriving at    *)
(* any endpoint attaches to whatever that endpoint's storage holds under   *)
(* the id (endpoints share one storage in the deviation).                  *)
(***************************************************************************)
EXTENDS Integers, Sequences, FiniteSets, TLC
CONSTANTS Copies, Eps, Origin, AttachAnywhere
VARIABLES loc,       \* copy -> endpoint, or 0 = not existing / dropped
          attached,  \* copy -> BOOLEAN : holds the entry (can reach the value)
          stored,    \* the origin's storage holds the entry
          taken,     \* the value was moved out by into_inner
          released,  \* the value was dropped by the library
          provider,  \* provider alive
          results    \* TRUE once a value was obtained away from the origin or at another type (kept as a flag: a history set explodes)
vars == <<loc, attached, stored, taken, released, provider, results>>
Live == {c \in Copies : loc[c] # 0}
First == CHOOSE c \in Copies : \A d \in Copies : c <= d
Init == /\ loc = [c \in Copies |-> IF c = First THEN Origin ELSE 0]
        /\ attached = [c \in Copies |-> c = First] /\ stored = FALSE /\ taken = FALSE /\ released = FALSE /\ provider = TRUE /\ results = FALSE
Clone(c, d) == /\ loc[c] # 0 /\ loc[d] = 0 /\ loc' = [loc EXCEPT ![d] = loc[c]] /\ attached' = [attached EXCEPT ![d] = attached[c]]
               /\ UNCHANGED <<stored, taken, released, provider, results>>
DropC(c) == /\ loc[c] # 0 /\ loc' = [loc EXCEPT ![c] = 0] /\ attached' = [attached EXCEPT ![c] = FALSE]
            /\ UNCHANGED <<stored, taken, released, provider, results>>
\* a copy travels from its endpoint to a neighbouring one
Send(c, e) == /\ loc[c] # 0 /\ e \in Eps /\ e # loc[c]
              /\ loc' = [loc EXCEPT ![c] = e]
              /\ IF loc[c] = Origin /\ attached[c]
                 THEN \* leaving the origin: the entry is registered in the storage, the travelling copy is a reference
                      /\ stored' = (stored \/ ~released) /\ attached' = [attached EXCEPT ![c] = FALSE]
                 ELSE IF (e = Origin \/ AttachAnywhere) /\ stored
                 THEN \* arriving at the origin: re-attach and take the entry out of the storage
                      /\ attached' = [attached EXCEPT ![c] = TRUE] /\ stored' = FALSE
                 ELSE UNCHANGED <<attached, stored>>
              /\ UNCHANGED <<taken, released, provider, results>>
Access(c, ty, take) == /\ loc[c] # 0
                       /\ LET ok == attached[c] /\ ~taken /\ ~released
                              out == IF ~ok THEN "unknown" ELSE IF ty = "other" THEN "mismatch" ELSE "value" IN
                          /\ results' = (results \/ (out = "value" /\ (loc[c] # Origin \/ ty # "orig")))
                          /\ taken' = (taken \/ (take /\ out = "value"))
                          /\ IF take THEN loc' = [loc EXCEPT ![c] = 0] /\ attached' = [attached EXCEPT ![c] = FALSE] ELSE UNCHANGED <<loc, attached>>
                       /\ UNCHANGED <<stored, released, provider>>
DropProvider == /\ provider /\ provider' = FALSE /\ UNCHANGED <<loc, attached, stored, taken, released, results>>
\* release: provider gone, or no copy left anywhere
Release == /\ ~released /\ ~taken /\ (~provider \/ Live = {})
           /\ released' = TRUE /\ stored' = FALSE /\ attached' = [c \in Copies |-> FALSE]
           /\ UNCHANGED <<loc, taken, provider, results>>
Next == \/ \E c, d \in Copies : Clone(c, d)
        \/ \E c \in Copies : DropC(c) \/ (\E e \in Eps : Send(c, e)) \/ (\E ty \in {"orig", "other"}, t \in BOOLEAN : Access(c, ty, t))
        \/ DropProvider \/ Release
Spec == Init /\ [][Next]_vars /\ WF_vars(Release)
\* C20: the value is only ever obtained on the origin endpoint at its original type
C20_Confined == ~results
\* C20: released once every copy is gone (or the provider was dropped), unless it was taken
C20_Released == (Live = {} \/ ~provider) ~> (released \/ taken)
=============================================================================
