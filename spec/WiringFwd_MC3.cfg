SPECIFICATION Spec
CONSTANTS
  N = 3
  F = 3
  IdFromPort = FALSE
INVARIANTS C05_ConnectedUnlessRejected C05_Partition
CHECK_DEADLOCK FALSE
