SPECIFICATION Spec
INVARIANTS Inv_C17 Inv_TOOL Inv_Excl
POSTCONDITION Accepted
CHECK_DEADLOCK FALSE
