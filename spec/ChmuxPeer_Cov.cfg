SPECIFICATION Spec
CONSTANTS
 C <- C1
 Depth = 5
INVARIANTS NeverFullBuffer
CHECK_DEADLOCK FALSE
