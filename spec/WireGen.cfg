SPECIFICATION Spec
INVARIANT RoundTrip Counts
CHECK_DEADLOCK FALSE
