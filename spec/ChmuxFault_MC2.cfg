SPECIFICATION FairSpec
CONSTANTS
 T <- TB
 D = 1
 MaxNow = 18
 Kinds = {"sink_err", "stream_err", "stream_end", "stall", "stall_both"}
INVARIANTS NoSpuriousTimeout FailStop NoOpSurvives ClockOK
CHECK_DEADLOCK FALSE
