----------------------------- MODULE Broadcast -----------------------------
(***************************************************************************)
(* rch::broadcast (C16): Sender::send is one non-blocking fan-out step;    *)
(* a subscriber whose queue is full is taken off the list and a lag task   *)
(* (send(Lagged) -> reserve a slot -> report ready) re-admits it.  Queue   *)
(* capacity per subscriber = send buffer + receive buffer (local: one      *)
(* queue).  Checked for all interleavings of sends, lag-task steps and     *)
(* receives: per subscriber the values are increasing, every gap carries a *)
(* lag marker (0) in between, a subscriber that always drains before the   *)
(* next send misses nothing, and send is never blocked.                    *)
(***************************************************************************)
EXTENDS Naturals, Sequences, FiniteSets, TLC
CONSTANTS Subs, Cap, NVals, Fast      \* Cap: [Subs -> queue capacity]; Fast: subscribers that drain before every send
VARIABLES subs, lt, q, obs, nsent
vars == <<subs, lt, q, obs, nsent>>

Init == subs = Subs /\ lt = [s \in Subs |-> "none"] /\ q = [s \in Subs |-> <<>>] /\ obs = [s \in Subs |-> <<>>] /\ nsent = 0

Send == /\ nsent < NVals /\ \A f \in Fast : q[f] = <<>>
        /\ nsent' = nsent + 1
        /\ LET v == nsent + 1
               cur == subs \cup {s \in Subs : lt[s] = "ready"}
               fits(s) == Len(q[s]) < Cap[s] IN
             /\ subs' = {s \in cur : fits(s)}
             /\ q' = [s \in Subs |-> IF s \in cur /\ fits(s) THEN Append(q[s], v) ELSE q[s]]
             /\ lt' = [s \in Subs |-> IF s \in cur /\ ~fits(s) THEN "lag" ELSE IF lt[s] = "ready" THEN "none" ELSE lt[s]]
        /\ UNCHANGED obs
LagStep(s) == /\ Len(q[s]) < Cap[s]
              /\ \/ lt[s] = "lag" /\ q' = [q EXCEPT ![s] = Append(@, 0)] /\ lt' = [lt EXCEPT ![s] = "permit"]
                 \/ lt[s] = "permit" /\ lt' = [lt EXCEPT ![s] = "ready"] /\ UNCHANGED q
              /\ UNCHANGED <<subs, obs, nsent>>
Recv(s) == /\ q[s] # <<>> /\ q' = [q EXCEPT ![s] = Tail(@)] /\ obs' = [obs EXCEPT ![s] = Append(@, Head(q[s]))]
           /\ UNCHANGED <<subs, lt, nsent>>
Next == Send \/ (\E s \in Subs : LagStep(s) \/ Recv(s))
Spec == Init /\ [][Next]_vars /\ WF_vars(Next)

GapMarked(o) == \A i \in 1..Len(o) : o[i] > 0 =>
                   LET prevs == {j \in 1..(i - 1) : o[j] > 0} IN
                   IF prevs = {} THEN (o[i] # 1 => \E k \in 1..(i - 1) : o[k] = 0)
                   ELSE LET j == CHOOSE j \in prevs : \A k \in prevs : k <= j IN
                        /\ o[i] > o[j]
                        /\ (o[i] # o[j] + 1 => \E k \in (j + 1)..(i - 1) : o[k] = 0)
C16_Gap == \A s \in Subs : GapMarked(obs[s])
C16_KeepUp == \A f \in Fast : \A i \in 1..Len(obs[f]) : obs[f][i] = i
C16_SendNeverBlocked == nsent < NVals /\ (\A f \in Fast : q[f] = <<>>) => ENABLED Send
=============================================================================
