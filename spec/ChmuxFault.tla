---------------------------- MODULE ChmuxFault ----------------------------
(***************************************************************************)
(* Fail-stop behaviour of a chmux connection under a virtual clock (C06).  *)
(* Each endpoint e advertises a connection timeout T[e]; the peer sends a  *)
(* Ping when it has sent nothing for T[e]/2 (send_task), e's recv_task     *)
(* fails with Timeout when it has received nothing for T[e].  The          *)
(* transport delivers a frame at most D ticks after it was emitted while   *)
(* it is healthy.  One fault may hit at any moment: sink error, stream     *)
(* error, end of stream, silent stall of one or of both directions.        *)
(* Checked: a healthy connection is never torn down (NoSpuriousTimeout),   *)
(* after a fault both dispatchers fail within a bounded time (FailStop),   *)
(* pending and later operations fail (OpsFail).                            *)
(***************************************************************************)
EXTENDS Integers, Sequences, FiniteSets, TLC
CONSTANTS T,        \* <<timeout of A, timeout of B>> in ticks (even)
          D,        \* maximal healthy delivery latency in ticks, D < min(T)/2
          MaxNow,   \* clock bound
          Kinds     \* fault kinds explored

E == {1, 2}
Peer(e) == 3 - e
\* direction d carries frames from endpoint d to Peer(d)
VARIABLES now, lastTx, lastRx, wire, link, mux, fault, faultTime, ops
vars == <<now, lastTx, lastRx, wire, link, mux, fault, faultTime, ops>>

Init == /\ now = 0 /\ lastTx = [e \in E |-> 0] /\ lastRx = [e \in E |-> 0] /\ wire = [d \in E |-> <<>>]
        /\ link = [d \in E |-> "up"] /\ mux = [e \in E |-> "run"] /\ fault = "none" /\ faultTime = 0
        /\ ops = [e \in E |-> "pending"]

Running(e) == mux[e] = "run"
PingDue(e) == Running(e) /\ now - lastTx[e] >= T[Peer(e)] \div 2
TimeoutDue(e) == Running(e) /\ now - lastRx[e] >= T[e]
Overdue(d) == link[d] = "up" /\ wire[d] # <<>> /\ now - Head(wire[d]) >= D

\* time passes only when nothing urgent is due (timers fire on time, a healthy transport respects its latency)
Tick == /\ now < MaxNow /\ \A e \in E : ~PingDue(e) /\ ~TimeoutDue(e) /\ ~Overdue(e)
        /\ \A e \in E : ~(mux[e] = "err" /\ Running(Peer(e)) /\ link[e] # "stalled" /\ wire[e] = <<>>)   \* EOF is seen at once
        /\ now' = now + 1 /\ UNCHANGED <<lastTx, lastRx, wire, link, mux, fault, faultTime, ops>>

\* send_task: Ping when idle, or ordinary traffic at any time; a broken sink fails the dispatcher at the attempt
Send(e) == /\ Running(e)
           /\ IF link[e] = "sinkerr"
                THEN mux' = [mux EXCEPT ![e] = "err"] /\ UNCHANGED <<wire, lastTx>>
                ELSE /\ wire' = [wire EXCEPT ![e] = IF link[e] = "broken" THEN @ ELSE Append(@, now)]
                     /\ lastTx' = [lastTx EXCEPT ![e] = now] /\ UNCHANGED mux
           /\ UNCHANGED <<now, lastRx, link, fault, faultTime, ops>>
Ping(e) == PingDue(e) /\ Send(e)
Traffic(e) == wire[e] = <<>> /\ Send(e)

Deliver(d) == /\ link[d] = "up" /\ wire[d] # <<>> /\ wire' = [wire EXCEPT ![d] = Tail(@)]
              /\ lastRx' = [lastRx EXCEPT ![Peer(d)] = IF Running(Peer(d)) THEN now ELSE @]
              /\ UNCHANGED <<now, lastTx, link, mux, fault, faultTime, ops>>

Timeout(e) == /\ TimeoutDue(e) /\ mux' = [mux EXCEPT ![e] = "err"]
              /\ UNCHANGED <<now, lastTx, lastRx, wire, link, fault, faultTime, ops>>
\* the stream of e reports an error / its end (injected, or because the peer's dispatcher is gone and dropped its halves)
StreamFail(e) == /\ Running(e)
                 /\ \/ link[Peer(e)] \in {"streamerr", "streamend"}
                    \/ mux[Peer(e)] = "err" /\ link[Peer(e)] # "stalled" /\ wire[Peer(e)] = <<>>
                 /\ mux' = [mux EXCEPT ![e] = "err"]
                 /\ UNCHANGED <<now, lastTx, lastRx, wire, link, fault, faultTime, ops>>
\* the peer dropped its stream half: our sink breaks
SinkGone(e) == /\ Running(e) /\ mux[Peer(e)] = "err" /\ link[e] = "up" /\ link' = [link EXCEPT ![e] = "sinkerr"]
               /\ UNCHANGED <<now, lastTx, lastRx, wire, mux, fault, faultTime, ops>>

Inject(k, d) == /\ fault = "none" /\ k \in Kinds /\ fault' = k /\ faultTime' = now
                /\ link' = CASE k = "sink_err" -> [link EXCEPT ![d] = "sinkerr"]
                             [] k = "stream_err" -> [link EXCEPT ![d] = "streamerr"]
                             [] k = "stream_end" -> [link EXCEPT ![d] = "streamend"]
                             [] k = "stall" -> [link EXCEPT ![d] = "stalled"]
                             [] k = "stall_both" -> [e \in E |-> "stalled"]
                /\ wire' = IF k \in {"sink_err", "stream_err", "stream_end"} THEN [wire EXCEPT ![d] = <<>>] ELSE wire
                /\ UNCHANGED <<now, lastTx, lastRx, mux, ops>>

OpFail(e) == /\ mux[e] = "err" /\ ops[e] = "pending" /\ ops' = [ops EXCEPT ![e] = "failed"]
             /\ UNCHANGED <<now, lastTx, lastRx, wire, link, mux, fault, faultTime>>

Next == Tick \/ (\E e \in E : Ping(e) \/ Traffic(e) \/ Deliver(e) \/ Timeout(e) \/ StreamFail(e) \/ SinkGone(e) \/ OpFail(e))
        \/ (\E k \in Kinds, d \in E : Inject(k, d))
Spec == Init /\ [][Next]_vars /\ WF_vars(Next)
FairSpec == Spec /\ \A e \in E : WF_vars(OpFail(e))

\* ------------------------------------------------------------------ properties
NoSpuriousTimeout == fault = "none" => \A e \in E : Running(e)
Bound == T[1] + T[2] + D + 1
FailStop == (fault # "none" /\ now > faultTime + Bound) => \A e \in E : mux[e] = "err"
OpsFail == \A e \in E : (mux[e] = "err") ~> (ops[e] = "failed")
NoOpSurvives == \A e \in E : ops[e] = "failed" => mux[e] = "err"
ClockOK == now <= MaxNow
=============================================================================
