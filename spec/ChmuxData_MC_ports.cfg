SPECIFICATION Spec
CONSTANTS
 Chunk = 4
 RBuf = 9
 MaxData = 3
 QA = 1
 QB = 1
 Pipe = 1
 NOps = 3
 Lens = {0,3}
 PortCounts = {1,2}
 Kinds = {"send","ports"}
 Dev = {}
INVARIANTS C01_Prefix C01_NoGhost C02_Bound C02_Chunk C02_Grant C02_Internal C03_NoLeak C03_NoEmptyPorts C03_Conservation
PROPERTY C01_Live C03_Live
