----------------------------- MODULE HandleTrace -----------------------------
(***************************************************************************)
(* Trace specification for handles and lazy values (C20).                  *)
(* Handles: copies of one handle are cloned, dropped, cast, sent between   *)
(* endpoints 0 (origin), 1, 2 and accessed.  The trace spec keeps          *)
(* Handle.tla's visible state - where every copy is, whether the value was *)
(* taken, released, whether the provider is alive - and checks every       *)
(* access result and the release of the value against it.                  *)
(* Lazy values / blobs: what is fetched equals what was provided, or the   *)
(* fetch fails; it fails only for a reason present in the scenario.        *)
(***************************************************************************)
EXTENDS Integers, Sequences, FiniteSets, TLC, Json, IOUtils
Rec == ndJsonDeserialize(IOEnv.TRACE)
VARIABLES l, wl, vid, loc, taken, released, provider, cut, lz, bad
vars == <<l, wl, vid, loc, taken, released, provider, cut, lz, bad>>
Ev == Rec[l]
Checked(p) == IOEnv.CHECK = "ALL" \/ p = IOEnv.CHECK \/ p = "TOOL"
Flag(p, why) == IF bad = <<>> /\ Checked(p) /\ PrintT("VIOLATION property=" \o p \o " line=" \o ToString(l) \o " reason=" \o why) THEN <<p, why, l>> ELSE bad
RECURSIVE FirstOf(_)
FirstOf(cs) == IF cs = <<>> THEN bad ELSE IF cs[1][1] THEN Flag("C20", cs[1][2]) ELSE FirstOf(Tail(cs))
Is(e) == l <= Len(Rec) /\ Ev.ev = e /\ l' = l + 1
Put(f, k, v) == IF k \in DOMAIN f THEN [f EXCEPT ![k] = v] ELSE f @@ (k :> v)
Live == {c \in DOMAIN loc : loc[c] >= 0}
Init == /\ l = 1 /\ wl = "" /\ vid = 0 /\ loc = <<>> /\ taken = FALSE /\ released = FALSE /\ provider = FALSE /\ cut = FALSE
        /\ lz = [len |-> 0, drop |-> FALSE, fetched |-> FALSE, res |-> FALSE] /\ bad = <<>>
Reset == /\ Is("reset") /\ wl' = Ev.wl /\ vid' = 0 /\ loc' = <<>> /\ taken' = FALSE /\ released' = FALSE /\ provider' = FALSE /\ cut' = FALSE
         /\ lz' = [len |-> IF "len" \in DOMAIN Ev THEN Ev.len ELSE 0, drop |-> FALSE, fetched |-> FALSE, res |-> FALSE] /\ bad' = bad
\* ---- handles
New == /\ Is("hd_new") /\ vid' = Ev.v /\ loc' = (Ev.copy :> 0) /\ provider' = Ev.provided
       /\ UNCHANGED <<wl, taken, released, cut, lz, bad>>
Clone == /\ Is("hd_clone") /\ loc' = Put(loc, Ev.copy, Ev.ep) /\ UNCHANGED <<wl, vid, taken, released, provider, cut, lz, bad>>
DropC == /\ l <= Len(Rec) /\ Ev.ev \in {"hd_drop", "hd_lost"} /\ l' = l + 1 /\ loc' = Put(loc, Ev.copy, 0 - 1)
         /\ UNCHANGED <<wl, vid, taken, released, provider, cut, lz, bad>>
Send == /\ Is("hd_send") /\ UNCHANGED <<wl, vid, loc, taken, released, provider, cut, lz, bad>>
Arrived == /\ Is("hd_arrived") /\ loc' = Put(loc, Ev.copy, Ev.ep) /\ UNCHANGED <<wl, vid, taken, released, provider, cut, lz, bad>>
Res == /\ Is("hd_res")
       /\ taken' = (taken \/ (Ev.op = "into_inner" /\ Ev.res = "value"))
       /\ loc' = IF Ev.op = "into_inner" THEN Put(loc, Ev.copy, 0 - 1) ELSE loc
       /\ bad' = FirstOf(<<
            <<Ev.res = "value" /\ Ev.ep # 0, "a handle was turned into a value on an endpoint that did not create it">>,
            <<Ev.res = "value" /\ Ev.op = "cast_as_ref", "a handle cast to another type gave access to the value">>,
            <<Ev.res = "value" /\ Ev.seen # vid, "a handle gave access to a different value">>,
            <<Ev.res = "value" /\ taken, "a handle gave access to a value that had already been taken">>,
            <<Ev.res = "value" /\ released, "a handle gave access to a value after it was released">>,
            <<Ev.res = "mismatch" /\ Ev.op # "cast_as_ref", "access at the original type reported a type mismatch">> >>)
       /\ UNCHANGED <<wl, vid, released, provider, cut, lz>>
ProvDrop == /\ Is("hd_provider_drop") /\ provider' = FALSE /\ UNCHANGED <<wl, vid, loc, taken, released, cut, lz, bad>>
VDrop == /\ Is("v_drop")
         /\ released' = TRUE
         /\ bad' = FirstOf(<<
              <<Ev.id # vid, "harness: unknown value dropped">>,
              <<released, "the stored value was dropped twice">> >>)
         /\ UNCHANGED <<wl, vid, loc, taken, provider, cut, lz>>
HEnd == /\ Is("hd_end")
        /\ bad' = FirstOf(<<
             <<~released /\ Live = {}, "the stored value was not released although every handle on every endpoint is gone">> >>)
        /\ UNCHANGED <<wl, vid, loc, taken, released, provider, cut, lz>>
\* ---- lazy values and blobs
LNew == /\ Is("lz_new") /\ UNCHANGED <<wl, vid, loc, taken, released, provider, cut, lz, bad>>
LProvDrop == /\ Is("lz_provider_drop") /\ lz' = [lz EXCEPT !.drop = TRUE] /\ UNCHANGED <<wl, vid, loc, taken, released, provider, cut, bad>>
LFetch == /\ Is("lz_fetch") /\ lz' = [lz EXCEPT !.fetched = TRUE]
          /\ bad' = FirstOf(<< <<Ev.announced >= 0 /\ Ev.announced # lz.len, "lazy blob announces a length different from the data provided">> >>)
          /\ UNCHANGED <<wl, vid, loc, taken, released, provider, cut>>
LRes == /\ Is("lz_res") /\ lz' = [lz EXCEPT !.res = TRUE]
        /\ bad' = IF Ev.ok THEN FirstOf(<<
                       <<Ev.len # lz.len, "fetched value has a different length than the value provided (truncated or extended)">>,
                       <<~Ev.match, "fetched value differs from the value provided">> >>)
                  ELSE FirstOf(<<
                       <<~cut /\ ~lz.drop, "fetch failed although connection and provider are alive">> >>)
        /\ UNCHANGED <<wl, vid, loc, taken, released, provider, cut>>
LAgain == /\ Is("lz_again")
          /\ bad' = FirstOf(<< <<~Ev.same, "a second get of a fetched lazy value returned something else">> >>)
          /\ UNCHANGED <<wl, vid, loc, taken, released, provider, cut, lz>>
LLost == /\ Is("lz_lost")
         /\ bad' = FirstOf(<< <<~cut, "a lazy value could not be forwarded over a healthy connection">> >>)
         /\ UNCHANGED <<wl, vid, loc, taken, released, provider, cut, lz>>
LEnd == /\ Is("lz_end")
        /\ bad' = FirstOf(<<
             <<Ev.pending > 0, "fetch neither completed nor failed (hang)">>,
             <<lz.fetched /\ ~lz.res, "harness: fetch without verdict">> >>)
        /\ UNCHANGED <<wl, vid, loc, taken, released, provider, cut, lz>>
Fault == /\ Is("fault") /\ cut' = TRUE /\ UNCHANGED <<wl, vid, loc, taken, released, provider, lz, bad>>
Known == {"reset", "hd_new", "hd_clone", "hd_drop", "hd_lost", "hd_send", "hd_arrived", "hd_res", "hd_provider_drop", "v_drop", "hd_end",
          "lz_new", "lz_provider_drop", "lz_fetch", "lz_res", "lz_again", "lz_lost", "lz_end", "fault"}
Skip == /\ l <= Len(Rec) /\ Ev.ev \notin Known /\ l' = l + 1 /\ UNCHANGED <<wl, vid, loc, taken, released, provider, cut, lz, bad>>
Next == Reset \/ New \/ Clone \/ DropC \/ Send \/ Arrived \/ Res \/ ProvDrop \/ VDrop \/ HEnd
        \/ LNew \/ LProvDrop \/ LFetch \/ LRes \/ LAgain \/ LLost \/ LEnd \/ Fault \/ Skip
Spec == Init /\ [][Next]_vars
Inv_C20 == bad = <<>> \/ bad[1] # "C20"
Inv_TOOL == bad = <<>> \/ bad[1] # "TOOL"
Accepted == IF TLCGet("stats").diameter - 1 = Len(Rec) THEN TRUE
            ELSE Print(<<"TRACE NOT CONSUMED", TLCGet("stats").diameter - 1, Len(Rec)>>, FALSE)
=============================================================================
