---- MODULE ChmuxLife ----
\* Exhaustive model of the chmux port lifecycle (C07, C10, C11 without data): open requests through the client,
\* accept / reject / dropped request / dropped listener, the four half-closed flags of a port, SendFinish /
\* ReceiveClose / ReceiveFinish, ClientFinish / ListenerFinish, should_terminate and the Goodbye exchange.
\* Two endpoints; every user-visible handle can be dropped at any time; helper tasks (Sender::new, Receiver::new,
\* Request::new) report drops asynchronously.  One action per handle_event / handle_received_msg arm; the
\* panics of handle_event and the protocol errors of handle_received_msg are reachable outcomes ("panic", "err").
EXTENDS Naturals, Sequences, FiniteSets, TLC
CONSTANTS NReq, Connectors, WithClose
E == {"A", "B"}
Peer(e) == IF e = "A" THEN "B" ELSE "A"
\* port ids: request r of endpoint e uses client port <<e, r>>; the server port allocated for it is <<Peer(e), r + 10>>
Reqs == 1..NReq
CPort(e, r) == <<e, r>>
SPort(e, r) == <<Peer(e), r + 10>>

VARIABLES
  client,     \* [E -> {"alive","dropped","reported"}]  local Client handles
  listener,   \* [E -> {"alive","dropped","reported"}]
  req,        \* [E -> [Reqs -> state of the connect request issued by e]]
              \*   "none","queued"(in connect queue),"sent"(OpenPort emitted),"accepted","rejected","failed"
  lreq,       \* [E -> [Reqs -> listener-side state of the request of Peer(e)]]: "none","queued","held","accepting","done"
  ports,      \* [E -> function from port id to record]
  outst,      \* [E -> set of remote port ids with outstanding requests]
  evq,        \* [E -> sequence of port events waiting for the mux]
  wire,       \* [E -> sequence of frames emitted by e, not yet handled by Peer(e)]
  fl,         \* [E -> record of mux flags]
  mux,        \* [E -> "run","ok","err","panic"]
  half,       \* [E -> function from port id to [s: sender state, r: receiver state]]: "alive","dropped"(not yet reported),"reported"; r also "closed"
  resolved    \* history: [E -> [Reqs -> number of resolutions]]
vars == <<client, listener, req, lreq, ports, outst, evq, wire, fl, mux, half, resolved>>

NoPorts == [p \in {} |-> 0]
Flags0 == [acd |-> FALSE, rcd |-> FALSE, ld |-> FALSE, rld |-> FALSE, gs |-> FALSE, gr |-> FALSE, ste |-> FALSE]
Init == /\ client = [e \in E |-> "alive"] /\ listener = [e \in E |-> "alive"]
        /\ req = [e \in E |-> [r \in Reqs |-> "none"]] /\ lreq = [e \in E |-> [r \in Reqs |-> "none"]]
        /\ ports = [e \in E |-> NoPorts] /\ outst = [e \in E |-> {}] /\ evq = [e \in E |-> <<>>] /\ wire = [e \in E |-> <<>>]
        /\ fl = [e \in E |-> Flags0] /\ mux = [e \in E |-> "run"] /\ half = [e \in E |-> NoPorts]
        /\ resolved = [e \in E |-> [r \in Reqs |-> 0]]

Running(e) == mux[e] = "run"
Emit(e, f) == wire' = [wire EXCEPT ![e] = Append(@, f)]
Push(e, ev) == evq' = [evq EXCEPT ![e] = Append(@, ev)]
Connected(rp) == [st |-> "connected", remote |-> rp, sd |-> FALSE, rd |-> FALSE, rc |-> FALSE, rsf |-> FALSE, rrc |-> FALSE, rrd |-> FALSE]
Halves0 == [s |-> "alive", r |-> "alive"]
WithPort(f, p, v) == [q \in (DOMAIN f) \cup {p} |-> IF q = p THEN v ELSE f[q]]
Without(f, p) == [q \in (DOMAIN f) \ {p} |-> f[q]]
Freeable(ps) == ps.st = "connected" /\ ps.sd /\ ps.rd /\ ps.rsf /\ ps.rrd
MaybeFree(f, p) == IF Freeable(f[p]) THEN Without(f, p) ELSE f
Resolve(e, r, how) == /\ req' = [req EXCEPT ![e][r] = how] /\ resolved' = [resolved EXCEPT ![e][r] = @ + 1]

\* ------------------------------------------------------------------ user actions
\* client of e issues request r (Client::connect_ext): enters the unbounded connect queue
Connect(e, r) == /\ e \in Connectors /\ client[e] = "alive" /\ req[e][r] = "none" /\ Running(e)
                 /\ req' = [req EXCEPT ![e][r] = "queued"]
                 /\ UNCHANGED <<client, listener, lreq, ports, outst, evq, wire, fl, mux, half, resolved>>
DropClient(e) == /\ client[e] = "alive" /\ client' = [client EXCEPT ![e] = "dropped"]
                 /\ UNCHANGED <<listener, req, lreq, ports, outst, evq, wire, fl, mux, half, resolved>>
\* dropping the listener also drops requests still queued in it (each rejects itself through its helper task)
DropListener(e) == /\ listener[e] = "alive" /\ listener' = [listener EXCEPT ![e] = "dropped"]
                   /\ lreq' = [lreq EXCEPT ![e] = [r \in Reqs |-> IF @[r] = "queued" THEN "dropping" ELSE @[r]]]
                   /\ UNCHANGED <<client, req, ports, outst, evq, wire, fl, mux, half, resolved>>
\* listener hands a queued request to the user
Inspect(e, r) == /\ listener[e] = "alive" /\ lreq[e][r] = "queued" /\ lreq' = [lreq EXCEPT ![e][r] = "held"]
                 /\ UNCHANGED <<client, listener, req, ports, outst, evq, wire, fl, mux, half, resolved>>
\* user accepts: PortEvt::Accepted enters the event queue (if the mux is gone the send fails silently)
Accept(e, r) == /\ lreq[e][r] = "held" /\ lreq' = [lreq EXCEPT ![e][r] = "done"]
                /\ IF Running(e) THEN Push(e, [k |-> "Accepted", r |-> r]) ELSE UNCHANGED evq
                /\ UNCHANGED <<client, listener, req, ports, outst, wire, fl, mux, half, resolved>>
Reject(e, r) == /\ lreq[e][r] = "held" /\ lreq' = [lreq EXCEPT ![e][r] = "done"]
                /\ IF Running(e) THEN Push(e, [k |-> "Rejected", r |-> r]) ELSE UNCHANGED evq
                /\ UNCHANGED <<client, listener, req, ports, outst, wire, fl, mux, half, resolved>>
\* user drops the request object: its helper task will send Rejected later
DropReq(e, r) == /\ lreq[e][r] = "held" /\ lreq' = [lreq EXCEPT ![e][r] = "dropping"]
                 /\ UNCHANGED <<client, listener, req, ports, outst, evq, wire, fl, mux, half, resolved>>
ReqDropTask(e, r) == /\ lreq[e][r] = "dropping" /\ lreq' = [lreq EXCEPT ![e][r] = "done"]
                     /\ IF Running(e) THEN Push(e, [k |-> "Rejected", r |-> r]) ELSE UNCHANGED evq
                     /\ UNCHANGED <<client, listener, req, ports, outst, wire, fl, mux, half, resolved>>
\* halves of an open port
DropSender(e, p) == /\ p \in DOMAIN half[e] /\ half[e][p].s = "alive" /\ half' = [half EXCEPT ![e][p].s = "dropped"]
                    /\ UNCHANGED <<client, listener, req, lreq, ports, outst, evq, wire, fl, mux, resolved>>
DropReceiver(e, p) == /\ p \in DOMAIN half[e] /\ half[e][p].r \in {"alive", "closed"} /\ half' = [half EXCEPT ![e][p].r = "dropped"]
                      /\ UNCHANGED <<client, listener, req, lreq, ports, outst, evq, wire, fl, mux, resolved>>
CloseReceiver(e, p) == /\ WithClose /\ p \in DOMAIN half[e] /\ half[e][p].r = "alive" /\ half' = [half EXCEPT ![e][p].r = "closed"]
                       /\ IF Running(e) THEN Push(e, [k |-> "ReceiverClosed", p |-> p]) ELSE UNCHANGED evq
                       /\ UNCHANGED <<client, listener, req, lreq, ports, outst, wire, fl, mux, resolved>>
\* helper tasks report drops (asynchronously)
SenderDropTask(e, p) == /\ p \in DOMAIN half[e] /\ half[e][p].s = "dropped" /\ half' = [half EXCEPT ![e][p].s = "reported"]
                        /\ IF Running(e) THEN Push(e, [k |-> "SenderDropped", p |-> p]) ELSE UNCHANGED evq
                        /\ UNCHANGED <<client, listener, req, lreq, ports, outst, wire, fl, mux, resolved>>
ReceiverDropTask(e, p) == /\ p \in DOMAIN half[e] /\ half[e][p].r = "dropped" /\ half' = [half EXCEPT ![e][p].r = "reported"]
                          /\ IF Running(e) THEN Push(e, [k |-> "ReceiverDropped", p |-> p]) ELSE UNCHANGED evq
                          /\ UNCHANGED <<client, listener, req, lreq, ports, outst, wire, fl, mux, resolved>>

\* ------------------------------------------------------------------ mux: local events (handle_event); needs the send task alive
CanSend(e) == Running(e) /\ ~fl[e].ste
MuxListenerDropped(e) == /\ CanSend(e) /\ listener[e] = "dropped" /\ listener' = [listener EXCEPT ![e] = "reported"]
                         /\ fl' = [fl EXCEPT ![e].ld = TRUE] /\ Emit(e, [k |-> "ListenerFinish"])
                         /\ UNCHANGED <<client, req, lreq, ports, outst, evq, mux, half, resolved>>
MuxClientsDropped(e) == /\ CanSend(e) /\ client[e] = "dropped" /\ \A r \in Reqs : req[e][r] # "queued"
                        /\ client' = [client EXCEPT ![e] = "reported"]
                        /\ fl' = [fl EXCEPT ![e].acd = TRUE] /\ Emit(e, [k |-> "ClientFinish"])
                        /\ UNCHANGED <<listener, req, lreq, ports, outst, evq, mux, half, resolved>>
MuxConnectReq(e, r) == /\ CanSend(e) /\ req[e][r] = "queued" /\ ~fl[e].acd
                       /\ IF ~fl[e].rld
                            THEN /\ req' = [req EXCEPT ![e][r] = "sent"] /\ ports' = [ports EXCEPT ![e] = WithPort(@, CPort(e, r), [st |-> "connecting"])]
                                 /\ Emit(e, [k |-> "OpenPort", r |-> r]) /\ UNCHANGED resolved
                            ELSE /\ Resolve(e, r, "rejected") /\ UNCHANGED <<ports, wire>>
                       /\ UNCHANGED <<client, listener, lreq, outst, evq, fl, mux, half>>
MuxPortEvt(e) == /\ CanSend(e) /\ evq[e] # <<>>
                 /\ LET ev == Head(evq[e]) pe == Peer(e) IN
                    /\ evq' = [evq EXCEPT ![e] = Tail(@)]
                    /\ CASE ev.k = "Accepted" ->
                              IF CPort(pe, ev.r) \notin outst[e] THEN mux' = [mux EXCEPT ![e] = "panic"] /\ UNCHANGED <<outst, ports, half, wire>>
                              ELSE /\ outst' = [outst EXCEPT ![e] = @ \ {CPort(pe, ev.r)}]
                                   /\ Emit(e, [k |-> "PortOpened", r |-> ev.r])
                                   /\ ports' = [ports EXCEPT ![e] = WithPort(@, SPort(pe, ev.r), Connected(CPort(pe, ev.r)))]
                                   /\ half' = [half EXCEPT ![e] = WithPort(@, SPort(pe, ev.r), Halves0)] /\ UNCHANGED mux
                      [] ev.k = "Rejected" ->
                              IF CPort(pe, ev.r) \notin outst[e] THEN mux' = [mux EXCEPT ![e] = "panic"] /\ UNCHANGED <<outst, ports, half, wire>>
                              ELSE /\ outst' = [outst EXCEPT ![e] = @ \ {CPort(pe, ev.r)}] /\ Emit(e, [k |-> "Rejected", r |-> ev.r])
                                   /\ UNCHANGED <<ports, half, mux>>
                      [] ev.k = "SenderDropped" ->
                              IF ev.p \notin DOMAIN ports[e] \/ ports[e][ev.p].st # "connected" \/ ports[e][ev.p].sd
                                THEN mux' = [mux EXCEPT ![e] = "panic"] /\ UNCHANGED <<outst, ports, half, wire>>
                                ELSE /\ Emit(e, [k |-> "SendFinish", p |-> ports[e][ev.p].remote])
                                     /\ ports' = [ports EXCEPT ![e] = MaybeFree([@ EXCEPT ![ev.p].sd = TRUE], ev.p)] /\ UNCHANGED <<outst, half, mux>>
                      [] ev.k = "ReceiverClosed" ->
                              IF ev.p \notin DOMAIN ports[e] \/ ports[e][ev.p].st # "connected" \/ ports[e][ev.p].rc \/ ports[e][ev.p].rd
                                THEN mux' = [mux EXCEPT ![e] = "panic"] /\ UNCHANGED <<outst, ports, half, wire>>
                                ELSE /\ Emit(e, [k |-> "ReceiveClose", p |-> ports[e][ev.p].remote])
                                     /\ ports' = [ports EXCEPT ![e][ev.p].rc = TRUE] /\ UNCHANGED <<outst, half, mux>>
                      [] ev.k = "ReceiverDropped" ->
                              IF ev.p \notin DOMAIN ports[e] \/ ports[e][ev.p].st # "connected" \/ ports[e][ev.p].rd
                                THEN mux' = [mux EXCEPT ![e] = "panic"] /\ UNCHANGED <<outst, ports, half, wire>>
                                ELSE /\ Emit(e, [k |-> "ReceiveFinish", p |-> ports[e][ev.p].remote])
                                     /\ ports' = [ports EXCEPT ![e] = MaybeFree([@ EXCEPT ![ev.p].rd = TRUE], ev.p)] /\ UNCHANGED <<outst, half, mux>>
                 /\ UNCHANGED <<client, listener, req, lreq, fl, resolved>>
ShouldTerminate(e) == \/ /\ DOMAIN ports[e] = {} /\ (fl[e].acd \/ fl[e].rld) /\ (fl[e].ld \/ fl[e].rcd) /\ outst[e] = {}
                      \/ fl[e].gs \/ fl[e].gr
MuxGoodbye(e) == /\ CanSend(e) /\ ShouldTerminate(e) /\ ~fl[e].gs
                 \* biased select: only when no other local event is ready
                 /\ evq[e] = <<>> /\ listener[e] # "dropped" /\ ~(client[e] = "dropped" /\ \A r \in Reqs : req[e][r] # "queued")
                 /\ \A r \in Reqs : ~(req[e][r] = "queued" /\ ~fl[e].acd)
                 /\ fl' = [fl EXCEPT ![e].gs = TRUE, ![e].ste = TRUE] /\ Emit(e, [k |-> "Goodbye"])
                 /\ UNCHANGED <<client, listener, req, lreq, ports, outst, evq, mux, half, resolved>>

\* ------------------------------------------------------------------ mux: frames from the peer (handle_received_msg)
ProtoErr(e) == mux' = [mux EXCEPT ![e] = "err"]
MuxRecv(e) == /\ Running(e) /\ ~fl[e].gr /\ wire[Peer(e)] # <<>>
              /\ LET f == Head(wire[Peer(e)]) pe == Peer(e) IN
                 /\ wire' = [wire EXCEPT ![pe] = Tail(@)]
                 /\ CASE f.k = "OpenPort" ->
                           IF CPort(pe, f.r) \in outst[e] THEN ProtoErr(e) /\ UNCHANGED <<outst, lreq, ports, half, fl, req, resolved>>
                           ELSE /\ outst' = [outst EXCEPT ![e] = @ \cup {CPort(pe, f.r)}]
                                /\ lreq' = [lreq EXCEPT ![e][f.r] = IF listener[e] = "alive" THEN "queued" ELSE "dropping"]
                                /\ UNCHANGED <<ports, half, fl, req, resolved, mux>>
                   [] f.k = "PortOpened" ->
                           IF CPort(e, f.r) \in DOMAIN ports[e] /\ ports[e][CPort(e, f.r)].st = "connecting"
                             THEN /\ ports' = [ports EXCEPT ![e] = WithPort(@, CPort(e, f.r), Connected(SPort(e, f.r)))]
                                  /\ half' = [half EXCEPT ![e] = WithPort(@, CPort(e, f.r), Halves0)]
                                  /\ Resolve(e, f.r, "accepted") /\ UNCHANGED <<outst, lreq, fl, mux>>
                             ELSE ProtoErr(e) /\ UNCHANGED <<outst, lreq, ports, half, fl, req, resolved>>
                   [] f.k = "Rejected" ->
                           IF CPort(e, f.r) \in DOMAIN ports[e] /\ ports[e][CPort(e, f.r)].st = "connecting"
                             THEN /\ ports' = [ports EXCEPT ![e] = Without(@, CPort(e, f.r))] /\ Resolve(e, f.r, "rejected")
                                  /\ UNCHANGED <<outst, lreq, half, fl, mux>>
                             ELSE ProtoErr(e) /\ UNCHANGED <<outst, lreq, ports, half, fl, req, resolved>>
                   [] f.k = "SendFinish" ->
                           IF f.p \in DOMAIN ports[e] /\ ports[e][f.p].st = "connected" /\ ~ports[e][f.p].rsf
                             THEN ports' = [ports EXCEPT ![e] = MaybeFree([@ EXCEPT ![f.p].rsf = TRUE], f.p)] /\ UNCHANGED <<outst, lreq, half, fl, req, resolved, mux>>
                             ELSE ProtoErr(e) /\ UNCHANGED <<outst, lreq, ports, half, fl, req, resolved>>
                   [] f.k = "ReceiveClose" ->
                           IF f.p \in DOMAIN ports[e] /\ ports[e][f.p].st = "connected" /\ ~ports[e][f.p].rrc
                             THEN ports' = [ports EXCEPT ![e] = MaybeFree([@ EXCEPT ![f.p].rrc = TRUE], f.p)] /\ UNCHANGED <<outst, lreq, half, fl, req, resolved, mux>>
                             ELSE ProtoErr(e) /\ UNCHANGED <<outst, lreq, ports, half, fl, req, resolved>>
                   [] f.k = "ReceiveFinish" ->
                           IF f.p \in DOMAIN ports[e] /\ ports[e][f.p].st = "connected"
                             THEN ports' = [ports EXCEPT ![e] = MaybeFree([@ EXCEPT ![f.p].rrc = TRUE, ![f.p].rrd = TRUE], f.p)] /\ UNCHANGED <<outst, lreq, half, fl, req, resolved, mux>>
                             ELSE ProtoErr(e) /\ UNCHANGED <<outst, lreq, ports, half, fl, req, resolved>>
                   [] f.k = "ClientFinish" -> fl' = [fl EXCEPT ![e].rcd = TRUE] /\ UNCHANGED <<outst, lreq, ports, half, req, resolved, mux>>
                   [] f.k = "ListenerFinish" -> fl' = [fl EXCEPT ![e].rld = TRUE] /\ UNCHANGED <<outst, lreq, ports, half, req, resolved, mux>>
                   [] f.k = "Goodbye" -> fl' = [fl EXCEPT ![e].gr = TRUE] /\ UNCHANGED <<outst, lreq, ports, half, req, resolved, mux>>
              /\ UNCHANGED <<client, listener, evq>>
\* run() returns Ok once both goodbyes are exchanged and the send task has ended; all port state is dropped
MuxEnd(e) == /\ Running(e) /\ fl[e].gs /\ fl[e].gr /\ fl[e].ste
             /\ mux' = [mux EXCEPT ![e] = "ok"]
             \* requests still waiting resolve as failed (response channel dropped)
             /\ req' = [req EXCEPT ![e] = [r \in Reqs |-> IF @[r] \in {"queued", "sent"} THEN "failed" ELSE @[r]]]
             /\ resolved' = [resolved EXCEPT ![e] = [r \in Reqs |-> IF req[e][r] \in {"queued", "sent"} THEN @[r] + 1 ELSE @[r]]]
             /\ UNCHANGED <<client, listener, lreq, ports, outst, evq, wire, fl, half>>
\* a protocol error / panic of one side closes the transport: the peer ends with an error
PeerGone(e) == /\ Running(e) /\ mux[Peer(e)] \in {"err", "panic"} /\ mux' = [mux EXCEPT ![e] = "err"]
               /\ UNCHANGED <<client, listener, req, lreq, ports, outst, evq, wire, fl, half, resolved>>

AllDropped == /\ \A e \in E : client[e] # "alive" /\ listener[e] # "alive"
              /\ \A e \in E : \A p \in DOMAIN half[e] : half[e][p].s # "alive" /\ half[e][p].r \notin {"alive", "closed"}
              /\ \A e \in E : \A r \in Reqs : lreq[e][r] # "held"
Done == \A e \in E : mux[e] # "run"
Term == Done /\ UNCHANGED vars

Next == \/ \E e \in E : \/ DropClient(e) \/ DropListener(e) \/ MuxListenerDropped(e) \/ MuxClientsDropped(e) \/ MuxPortEvt(e)
                         \/ MuxGoodbye(e) \/ MuxRecv(e) \/ MuxEnd(e) \/ PeerGone(e)
                         \/ \E r \in Reqs : Connect(e, r) \/ Inspect(e, r) \/ Accept(e, r) \/ Reject(e, r) \/ DropReq(e, r) \/ ReqDropTask(e, r) \/ MuxConnectReq(e, r)
                         \/ \E p \in DOMAIN half[e] : DropSender(e, p) \/ DropReceiver(e, p) \/ CloseReceiver(e, p) \/ SenderDropTask(e, p) \/ ReceiverDropTask(e, p)
        \/ Term
\* fairness: the system (mux, helper tasks, transport) is fair; users eventually drop everything
SysFair == \A e \in E : /\ WF_vars(MuxListenerDropped(e)) /\ WF_vars(MuxClientsDropped(e)) /\ WF_vars(MuxPortEvt(e)) /\ WF_vars(MuxGoodbye(e))
                        /\ WF_vars(MuxRecv(e)) /\ WF_vars(MuxEnd(e)) /\ WF_vars(PeerGone(e))
                        /\ \A r \in Reqs : WF_vars(ReqDropTask(e, r)) /\ WF_vars(MuxConnectReq(e, r))
                        /\ WF_vars(\E p \in DOMAIN half[e] : SenderDropTask(e, p)) /\ WF_vars(\E p \in DOMAIN half[e] : ReceiverDropTask(e, p))
UserFair == \A e \in E : /\ WF_vars(DropClient(e)) /\ WF_vars(DropListener(e))
                         /\ \A r \in Reqs : WF_vars(DropReq(e, r))
                         /\ WF_vars(\E p \in DOMAIN half[e] : DropSender(e, p)) /\ WF_vars(\E p \in DOMAIN half[e] : DropReceiver(e, p))
Spec == Init /\ [][Next]_vars /\ SysFair /\ UserFair

\* ------------------------------------------------------------------ properties
NoPanic == \A e \in E : mux[e] # "panic"
NoProtocolError == \A e \in E : mux[e] # "err"
OnceResolved == \A e \in E : \A r \in Reqs : resolved[e][r] <= 1
\* C07: a port entry exists until all four directions are finished
FreeOnlyWhenDone == \A e \in E : \A p \in DOMAIN ports[e] : ~Freeable(ports[e][p])
\* C10: pairing
Paired == \A e \in E : \A r \in Reqs : req[e][r] = "accepted" /\ CPort(e, r) \in DOMAIN ports[e] => ports[e][CPort(e, r)].remote = SPort(e, r)
\* C07 liveness: everything dropped => both dispatchers finish successfully
Shutdown == <>(\A e \in E : mux[e] = "ok")
ResolveAll == \A e \in E : \A r \in Reqs : (req[e][r] \in {"queued", "sent"}) ~> (req[e][r] \in {"accepted", "rejected", "failed"})
====
