SPECIFICATION Spec
CONSTANTS
  Sized = TRUE
  Size = 5
  MaxWrite = 4
  Chunk = 3
  Dev = "notrunc"
INVARIANTS C18_Prefix C18_EofOnlyComplete C18_NoOverlong C18_ShutdownVerifies
PROPERTY C18_Terminates
CHECK_DEADLOCK FALSE
