SPECIFICATION Spec
CONSTANTS
 Chunk = 2
 RBuf = 4
 MaxData = 3
 QA = 1
 QB = 1
 Pipe = 1
 NOps = 3
 Lens = {0,1,3,5}
 PortCounts = {}
 Kinds = {"send","chunks","try"}
 Dev = {}
INVARIANTS C01_Prefix C01_NoGhost C02_Bound C02_Chunk C02_Grant C02_Internal C03_NoLeak C03_NoEmptyPorts C03_Conservation
PROPERTY C01_Live C03_Live
