SPECIFICATION Spec
INVARIANTS Inv_C20 Inv_TOOL
POSTCONDITION Accepted
CHECK_DEADLOCK FALSE
