SPECIFICATION Spec
CONSTANTS
 C <- C1
 Depth = 7
INVARIANTS VerdictOK Buffered
CHECK_DEADLOCK FALSE
