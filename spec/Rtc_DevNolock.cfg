SPECIFICATION Spec
CONSTANTS
  Calls <- MCCalls
  Kind <- MCKind
  Cancellable <- MCCancellable
  Hang <- MCHang
  Flavour = "shared"
  Spawn = TRUE
  QLen = 2
  Dev = "nolock"
INVARIANTS
  TypeOK
  C12_AtMostOnce
  C12_OwnResult
  C12_MutAtomic
  C12_NoLostUpdate
  C19_NoCancelRuns
  C19_LockReleased
CHECK_DEADLOCK FALSE
