SPECIFICATION Spec
CONSTANTS Readers = {1,2}
 Writers = {1}
 FixF4 = FALSE
INVARIANTS Excl Fresh HoldersOk
