SPECIFICATION Spec
CONSTANTS Depth = 4
INVARIANT Emit
CHECK_DEADLOCK FALSE
