----------------------------- MODULE RobsMirror -----------------------------
(***************************************************************************)
(* Error behaviour of a mirror / subscription (C14).  The observed         *)
(* collection performs operations 1..N; operation i emits event i into the *)
(* subscriber's bounded event buffer.  If the buffer is full the           *)
(* subscription is shed: its pending events are discarded and a lag marker *)
(* is left.  The mirror task applies events in order; it stops with an     *)
(* error when it finds the lag marker, when the collection was dropped     *)
(* before done, or when the mirrored size would exceed MaxSize (every      *)
(* operation grows the collection by one here).  Once stopped, the mirror  *)
(* keeps its last contents and reports the error.                          *)
(* Deviation NoMarker: shedding leaves no lag marker.                      *)
(***************************************************************************)
EXTENDS Integers, Sequences, FiniteSets, TLC
CONSTANTS N, Buf, MaxSize, NoMarker
VARIABLES n,        \* operations performed by the collection
          queue,    \* event buffer of the subscription (event numbers)
          shed,     \* subscription was shed (lag marker pending)
          ended,    \* "no" | "done" | "dropped"  - how the collection ended
          k,        \* events applied by the mirror = the state of the history it shows
          merr      \* "none" | "Lagged" | "Closed" | "MaxSizeExceeded" | "finished"
vars == <<n, queue, shed, ended, k, merr>>
Init == n = 0 /\ queue = <<>> /\ shed = FALSE /\ ended = "no" /\ k = 0 /\ merr = "none"
Mutate == /\ ended = "no" /\ n < N /\ n' = n + 1
          /\ IF shed THEN UNCHANGED <<queue, shed>>
             ELSE IF Len(queue) >= Buf THEN queue' = <<>> /\ shed' = ~NoMarker
             ELSE queue' = Append(queue, n + 1) /\ UNCHANGED shed
          /\ UNCHANGED <<ended, k, merr>>
Done == ended = "no" /\ ended' = "done" /\ UNCHANGED <<n, queue, shed, k, merr>>
DropIt == ended = "no" /\ ended' = "dropped" /\ UNCHANGED <<n, queue, shed, k, merr>>
Apply == /\ merr = "none" /\ queue # <<>>
         /\ IF k + 1 > MaxSize THEN merr' = "MaxSizeExceeded" /\ UNCHANGED <<k, queue>>
            ELSE k' = Head(queue) /\ queue' = Tail(queue) /\ UNCHANGED merr
         /\ UNCHANGED <<n, shed, ended>>
SeeLag == merr = "none" /\ queue = <<>> /\ shed /\ merr' = "Lagged" /\ UNCHANGED <<n, queue, shed, ended, k>>
SeeEnd == /\ merr = "none" /\ queue = <<>> /\ ~shed /\ ended # "no"
          /\ merr' = IF ended = "done" THEN "finished" ELSE "Closed"
          /\ UNCHANGED <<n, queue, shed, ended, k>>
Next == Mutate \/ Done \/ DropIt \/ Apply \/ SeeLag \/ SeeEnd
Spec == Init /\ [][Next]_vars /\ WF_vars(Apply) /\ WF_vars(SeeLag) /\ WF_vars(SeeEnd) /\ WF_vars(Mutate \/ Done \/ DropIt)
\* the mirror only ever shows states of the history, in order (events are applied without gaps)
C14_ShowsHistory == k <= n
C14_NoGap == \A i \in 1..Len(queue) : queue[i] = k + i
\* it reports success only when it holds the final contents
C14_FinishedMeansEqual == merr = "finished" => k = n /\ ended = "done"
\* it never diverges silently: eventually it has the final contents or reports an error
C14_NoSilentDivergence == <>(merr # "none")
=============================================================================
