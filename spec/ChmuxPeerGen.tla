---------------------------- MODULE ChmuxPeerGen ----------------------------
(* Behaviour generator for the scripted-peer replay (C08): TLC (simulation mode) walks ChmuxPeerMC's
   transition relation and prints every finished behaviour as one JSON line: the steps (local connects of the
   endpoint under test, frames of the peer) and the verdict the specification expects after each step. *)
EXTENDS ChmuxPeer, TLC, Json
CONSTANTS Depth
VARIABLES s, v, n, hist
vars == <<s, v, n, hist>>
C == [chunk |-> 4, rbuf |-> 6, cq |-> 1]

LocalPorts == {1, 2}
AnyPort == {1, 2, 9}
RemotePorts == {21, 22}
Lens == {0, 1, C.chunk, C.chunk + 1}
Alphabet ==
    {[k |-> kk] : kk \in {"Bad", "Reset", "Hello", "Ping", "ClientFinish", "ListenerFinish", "Goodbye"}}
    \cup {[k |-> "OpenPort", client |-> r, wait |-> w] : r \in RemotePorts, w \in BOOLEAN}
    \cup {[k |-> "PortOpened", client |-> p, server |-> 31] : p \in AnyPort}
    \cup {[k |-> "Rejected", client |-> p] : p \in AnyPort}
    \cup {[k |-> "Data", port |-> p, len |-> ln] : p \in AnyPort, ln \in Lens}
    \cup {[k |-> "PortData", port |-> p, ports |-> ps] : p \in AnyPort, ps \in {<<>>, <<21>>, <<22, 22>>, <<23, 24>>}}
    \cup {[k |-> "PortCredits", port |-> p, credits |-> c] : p \in AnyPort, c \in {1, Huge}}
    \cup {[k |-> kk, port |-> p] : kk \in {"SendFinish", "ReceiveClose", "ReceiveFinish"}, p \in AnyPort}
\* terminal frames are drawn less often so that behaviours get deep: benign-looking frames for known ports first
Init == s = State0 /\ v = "run" /\ n = 0 /\ hist = <<>>
Connect(p) == /\ v = "run" /\ n < Depth /\ p \notin DOMAIN s.ports /\ s' = LocalConnect(s, p) /\ n' = n + 1 /\ UNCHANGED v
              /\ hist' = Append(hist, [local |-> "connect", p |-> p, v |-> "run"])
Recv(f) == /\ v = "run" /\ n < Depth /\ LET r == Handle(C, s, f) IN s' = r.s /\ v' = r.v /\ hist' = Append(hist, [frame |-> f, v |-> r.v])
           /\ n' = n + 1
Next == (\E p \in LocalPorts : Connect(p)) \/ (\E f \in Alphabet : Recv(f))
Spec == Init /\ [][Next]_vars
Finished == v # "run" \/ n = Depth
Emit == Finished => PrintT(ToJson([cfg |-> C, steps |-> hist]))
=============================================================================
