SPECIFICATION Spec
CONSTANTS
 Vals = {1, 2, 3}
 MaxLen = 3
 Kinds = {"vec", "deque", "list", "map", "set"}
INVARIANTS MirrorEqualsCollection EventsApplicable
CHECK_DEADLOCK FALSE
