-------------------------------- MODULE Mpsc --------------------------------
(***************************************************************************)
(* Remote mpsc channel, sending endpoint (C11 typed part, C04): senders    *)
(* put values into a bounded local queue; the forwarding task (send_impl)  *)
(* repeatedly either reads the back channel (close / error notification    *)
(* from the receiver) or takes the next queued value and transmits it;     *)
(* the select is biased towards the back channel.  Once the close has been *)
(* seen, every value still queued is reported as dropped through its       *)
(* Sending handle and later sends fail.  The receiving endpoint delivers   *)
(* transmitted values in order and may close at any moment; it keeps       *)
(* draining what was transmitted before the sender saw the close.          *)
(* Deviation QueueFirst: the select prefers the local queue (seeded change *)
(* C11_m2): with a producer that keeps the queue non-empty the close is    *)
(* never seen.                                                             *)
(***************************************************************************)
EXTENDS Integers, Sequences, FiniteSets, TLC
CONSTANTS N,          \* values 1..N the producer wants to send
          QLen,       \* local queue capacity
          QueueFirst  \* deviation
VARIABLES nextv,     \* next value the producer sends
          queue,     \* local queue
          wire,      \* transmitted, not yet received
          back,      \* back channel holds a close notification
          seenClose, \* forwarding task has processed the close
          fate,      \* value -> "none" | "queued" | "sent" | "dropped" | "refused"
          rclosed,   \* receiver called close
          recvd      \* sequence of values delivered to the application
vars == <<nextv, queue, wire, back, seenClose, fate, rclosed, recvd>>
Init == nextv = 1 /\ queue = <<>> /\ wire = <<>> /\ back = FALSE /\ seenClose = FALSE /\ fate = [v \in 1..N |-> "none"] /\ rclosed = FALSE /\ recvd = <<>>
\* producer: send fails once the close is known, otherwise waits for room in the queue
Produce == /\ nextv <= N
           /\ IF seenClose THEN fate' = [fate EXCEPT ![nextv] = "refused"] /\ UNCHANGED queue
              ELSE Len(queue) < QLen /\ queue' = Append(queue, nextv) /\ fate' = [fate EXCEPT ![nextv] = "queued"]
           /\ nextv' = nextv + 1 /\ UNCHANGED <<wire, back, seenClose, rclosed, recvd>>
\* forwarding task, back-channel arm
SeeClose == /\ back /\ ~seenClose /\ (QueueFirst => queue = <<>>)
            /\ seenClose' = TRUE /\ back' = FALSE
            /\ fate' = [v \in 1..N |-> IF \E i \in 1..Len(queue) : queue[i] = v THEN "dropped" ELSE fate[v]]
            /\ queue' = <<>> /\ UNCHANGED <<nextv, wire, rclosed, recvd>>
\* forwarding task, data arm
Transmit == /\ queue # <<>> /\ ~seenClose /\ (~QueueFirst => ~back)
            /\ wire' = Append(wire, Head(queue)) /\ fate' = [fate EXCEPT ![Head(queue)] = "sent"] /\ queue' = Tail(queue)
            /\ UNCHANGED <<nextv, back, seenClose, rclosed, recvd>>
\* receiver
Receive == /\ wire # <<>> /\ recvd' = Append(recvd, Head(wire)) /\ wire' = Tail(wire)
           /\ UNCHANGED <<nextv, queue, back, seenClose, fate, rclosed>>
Close == /\ ~rclosed /\ rclosed' = TRUE /\ back' = TRUE /\ UNCHANGED <<nextv, queue, wire, seenClose, fate, recvd>>
Next == Produce \/ SeeClose \/ Transmit \/ Receive \/ Close
Spec == Init /\ [][Next]_vars /\ WF_vars(Produce) /\ WF_vars(SeeClose) /\ WF_vars(Transmit) /\ WF_vars(Receive)
\* ---- properties
Sent == {v \in 1..N : fate[v] = "sent"}
\* C04: what the receiver gets is an ordered, gap-free prefix of the transmitted values
C04_PrefixOfSent == \A i \in 1..Len(recvd) : fate[recvd[i]] = "sent" /\ (i > 1 => recvd[i] > recvd[i - 1])
\* C11: values are lost only as a suffix: a dropped or refused value is never followed by a transmitted one
C11_SuffixLoss == \A v, w \in 1..N : v < w /\ fate[v] \in {"dropped", "refused"} => fate[w] # "sent"
\* C11: once the close was seen nothing new is transmitted (the queue is emptied by SeeClose and Produce refuses)
C11_NoSendAfterClose == seenClose => queue = <<>>
\* C11: closing a receiver stops the sending endpoint from starting new messages: once the close notification has
\* arrived (it sits in the back channel) no further value is put on the wire
C11_NoStartAfterCloseArrived == [][back => Len(wire') <= Len(wire)]_vars
\* C11: a close eventually becomes observable at a sender that keeps sending
C11_CloseObserved == rclosed ~> (seenClose \/ nextv > N)
\* C11: every transmitted value is eventually delivered (the receiver drains after close)
C11_Drained == <>[](\A v \in Sent : \E i \in 1..Len(recvd) : recvd[i] = v)
=============================================================================
