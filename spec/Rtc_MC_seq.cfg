SPECIFICATION Spec
CONSTANTS
  Calls <- MCCalls
  Kind <- MCKind
  Cancellable <- MCCancellable
  Hang <- MCHang
  Flavour = "seq"
  Spawn = FALSE
  QLen = 2
  Dev = "none"
INVARIANTS
  TypeOK
  C12_AtMostOnce
  C12_OwnResult
  C12_MutAtomic
  C12_NoLostUpdate
  C19_NoCancelRuns
  C19_LockReleased
PROPERTIES
  C19_Completes
  C19_Served
CHECK_DEADLOCK FALSE
