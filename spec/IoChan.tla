------------------------------- MODULE IoChan -------------------------------
(***************************************************************************)
(* I/O channel (C18): an AsyncWrite sender and an AsyncRead receiver over  *)
(* a binary channel.  Bytes are abstracted to their count (the byte at     *)
(* offset i is a function of i; order is the order of the chunk queue).    *)
(*   Sized mode:   Size is fixed at creation; a write is clamped to the    *)
(*                 remaining size and refused when nothing remains;        *)
(*                 shutdown verifies written = Size; the receiver reports  *)
(*                 end-of-file after exactly Size bytes.                   *)
(*   Unsized mode: shutdown announces the total on a side channel; the     *)
(*                 receiver verifies it after the data channel ended.      *)
(* A write hands at most one chunk (<= Chunk bytes) to a pending send;     *)
(* the next write / flush / shutdown completes it first.  Dropping the     *)
(* sender loses a pending chunk.  The connection may be cut at any time.   *)
(* Deviations: "notrunc" - end of the data channel is reported as a        *)
(* successful end-of-file without verification; "overlong" - writes are    *)
(* not clamped to the remaining size.                                      *)
(***************************************************************************)
EXTENDS Integers, Sequences, FiniteSets, TLC
CONSTANTS Sized,      \* BOOLEAN
          Size,       \* fixed size (sized mode)
          MaxWrite,   \* largest write request / total explored
          Chunk,      \* chunk size
          Dev         \* "none" | "notrunc" | "overlong"
VARIABLES written,    \* bytes accepted by write()
          pend,       \* bytes of the pending (not yet transmitted) chunk
          wire,       \* chunks in flight (sequence of lengths)
          sst,        \* sender: "open" | "shutdown_ok" | "shutdown_err" | "dropped" | "failed"
          announced,  \* unsized: total announced at shutdown (-1 = none)
          chanEnd,    \* data channel ended (sender closed it or dropped)
          sizeChanEnd,\* unsized: the size side channel ended without a value
          cut,        \* connection cut
          buf,        \* receiver: bytes of the current chunk not yet consumed
          nread,      \* bytes returned by read()
          rst         \* receiver: "reading" | "eof" | "err"
vars == <<written, pend, wire, sst, announced, chanEnd, sizeChanEnd, cut, buf, nread, rst>>
Min(a, b) == IF a < b THEN a ELSE b
SumSeq(s) == LET F[i \in 0..Len(s)] == IF i = 0 THEN 0 ELSE F[i - 1] + s[i] IN F[Len(s)]

Init == /\ written = 0 /\ pend = 0 /\ wire = <<>> /\ sst = "open" /\ announced = -1 /\ chanEnd = FALSE /\ sizeChanEnd = FALSE
        /\ cut = FALSE /\ buf = 0 /\ nread = 0 /\ rst = "reading"

\* ---- sender
Complete == /\ pend > 0 /\ ~cut /\ wire' = Append(wire, pend) /\ pend' = 0
            /\ UNCHANGED <<written, sst, announced, chanEnd, sizeChanEnd, cut, buf, nread, rst>>
\* write(req): completes the pending chunk first (modelled by the guard pend = 0)
Write(req) == /\ sst = "open" /\ pend = 0 /\ ~cut /\ req > 0 /\ written + req <= MaxWrite + Size
              /\ LET room == IF Sized /\ Dev # "overlong" THEN Size - written ELSE req IN
                 IF room <= 0 THEN UNCHANGED <<written, pend>>           \* refused: WriteZero error
                 ELSE LET n == Min(Min(req, room), Chunk) IN written' = written + n /\ pend' = n
              /\ UNCHANGED <<wire, sst, announced, chanEnd, sizeChanEnd, cut, buf, nread, rst>>
Shutdown == /\ sst = "open" /\ pend = 0 /\ ~cut
            /\ chanEnd' = TRUE
            /\ IF Sized THEN /\ sst' = IF written = Size THEN "shutdown_ok" ELSE "shutdown_err"
                             /\ UNCHANGED <<announced, sizeChanEnd>>
               ELSE /\ sst' = "shutdown_ok" /\ announced' = written /\ UNCHANGED sizeChanEnd
            /\ UNCHANGED <<written, pend, wire, cut, buf, nread, rst>>
DropSender == /\ sst = "open" /\ sst' = "dropped" /\ pend' = 0 /\ chanEnd' = TRUE /\ sizeChanEnd' = TRUE
              /\ UNCHANGED <<written, wire, announced, cut, buf, nread, rst>>
Cut == /\ ~cut /\ cut' = TRUE /\ wire' = <<>> /\ pend' = 0
       /\ sst' = IF sst = "open" THEN "failed" ELSE sst
       /\ UNCHANGED <<written, announced, chanEnd, sizeChanEnd, buf, nread, rst>>

\* ---- receiver
Fetch == /\ rst = "reading" /\ buf = 0 /\ wire # <<>> /\ buf' = Head(wire) /\ wire' = Tail(wire)
         /\ UNCHANGED <<written, pend, sst, announced, chanEnd, sizeChanEnd, cut, nread, rst>>
Read(k) == /\ rst = "reading" /\ buf > 0 /\ k > 0
           /\ LET allowed == IF Sized THEN Size - nread ELSE k
                  n == Min(Min(k, buf), allowed) IN
              /\ n > 0 /\ nread' = nread + n /\ buf' = buf - n
           /\ UNCHANGED <<written, pend, wire, sst, announced, chanEnd, sizeChanEnd, cut, rst>>
\* sized: the expected size has been read
EofSized == /\ rst = "reading" /\ Sized /\ nread = Size /\ rst' = "eof"
            /\ UNCHANGED <<written, pend, wire, sst, announced, chanEnd, sizeChanEnd, cut, buf, nread>>
\* the data channel ended with nothing left to read: verify
EndOfData == /\ rst = "reading" /\ buf = 0 /\ wire = <<>> /\ chanEnd /\ pend = 0 /\ ~cut
             /\ IF Dev = "notrunc" THEN rst' = "eof"
                ELSE IF Sized THEN rst' = IF nread = Size THEN "eof" ELSE "err"
                ELSE IF announced >= 0 THEN rst' = IF nread = announced THEN "eof" ELSE "err"
                ELSE sizeChanEnd /\ rst' = "err"
             /\ UNCHANGED <<written, pend, wire, sst, announced, chanEnd, sizeChanEnd, cut, buf, nread>>
CutSeen == /\ rst = "reading" /\ cut /\ buf = 0 /\ rst' = "err"
           /\ UNCHANGED <<written, pend, wire, sst, announced, chanEnd, sizeChanEnd, cut, buf, nread>>
Next == Complete \/ Shutdown \/ DropSender \/ Cut \/ Fetch \/ EofSized \/ EndOfData \/ CutSeen
        \/ \E r \in 1..MaxWrite : Write(r) \/ Read(r)
Fair == WF_vars(Complete) /\ WF_vars(Fetch) /\ WF_vars(EofSized) /\ WF_vars(EndOfData) /\ WF_vars(CutSeen)
        /\ WF_vars(\E r \in 1..MaxWrite : Read(r))
Spec == Init /\ [][Next]_vars /\ Fair

\* ---- properties (C18)
InFlight == SumSeq(wire) + buf
\* bytes read are a prefix of the bytes written (counts; order is the FIFO order of wire)
C18_Prefix == nread + InFlight + pend <= written /\ nread <= written
\* end-of-file is reported successfully only for the complete stream of the fixed / announced size
C18_EofOnlyComplete == rst = "eof" => /\ (Sized => nread = Size)
                                        /\ (~Sized => announced >= 0 /\ nread = announced /\ nread = written)
\* an over-long write is refused
C18_NoOverlong == Sized => written <= Size
\* sized shutdown succeeds only with exactly Size bytes written
C18_ShutdownVerifies == Sized /\ sst = "shutdown_ok" => written = Size
\* the receiver never hangs once the sender is finished one way or another
C18_Terminates == (sst # "open") ~> (rst # "reading")
=============================================================================
