SPECIFICATION Spec
INVARIANTS Inv_TOOL Inv_C01 Inv_C02 Inv_C03 Inv_C06 Inv_C07 Inv_C08 Inv_C09 Inv_C10 Inv_C11 Inv_Prefix Inv_Bound Inv_Grant
POSTCONDITION Accepted
CHECK_DEADLOCK FALSE
