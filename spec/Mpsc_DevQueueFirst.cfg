SPECIFICATION Spec
CONSTANTS
  N = 5
  QLen = 2
  QueueFirst = TRUE
INVARIANTS C04_PrefixOfSent C11_SuffixLoss C11_NoSendAfterClose
PROPERTIES C11_CloseObserved C11_Drained C11_NoStartAfterCloseArrived
CHECK_DEADLOCK FALSE
