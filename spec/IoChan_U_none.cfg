SPECIFICATION Spec
CONSTANTS
  Sized = FALSE
  Size = 5
  MaxWrite = 4
  Chunk = 3
  Dev = "none"
INVARIANTS C18_Prefix C18_EofOnlyComplete C18_NoOverlong C18_ShutdownVerifies
PROPERTY C18_Terminates
CHECK_DEADLOCK FALSE
