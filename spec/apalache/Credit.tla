------------------------------- MODULE Credit -------------------------------
(***************************************************************************)
(* Credit conservation of one chmux port for EVERY receive-buffer size     *)
(* (C02, unbounded): the receive buffer B of the receiving endpoint is     *)
(* handed to the sender as credits; a credit is always in exactly one of   *)
(* five places - with the sender (avail), travelling as data (flight),     *)
(* buffered at the receiver (buffered), consumed but not yet returned      *)
(* (pending), or travelling back (returning).  Hence the receiver never    *)
(* holds more than B bytes.  Checked with Apalache as an inductive         *)
(* invariant (no bound on B or on the amounts moved):                      *)
(*   apalache-mc check --init=IndInit --inv=IndInv --length=1 Credit.tla   *)
(*   apalache-mc check --inv=IndInv --length=0 Credit.tla                  *)
(***************************************************************************)
EXTENDS Integers
CONSTANTS
    \* @type: Int;
    B,
    \* deviation: every grant hands out Over credits too many (0 = the protocol)
    \* @type: Int;
    Over
VARIABLES
    \* @type: Int;
    avail,
    \* @type: Int;
    flight,
    \* @type: Int;
    buffered,
    \* @type: Int;
    pending,
    \* @type: Int;
    returning
ConstInit == B \in Nat /\ B >= 4 /\ Over = 0
ConstInitDev == B \in Nat /\ B >= 4 /\ Over = 1
Init == avail = B /\ flight = 0 /\ buffered = 0 /\ pending = 0 /\ returning = 0
Send == \E n \in Nat : n >= 1 /\ n <= avail /\ avail' = avail - n /\ flight' = flight + n /\ UNCHANGED <<buffered, pending, returning>>
Deliver == \E n \in Nat : n >= 1 /\ n <= flight /\ flight' = flight - n /\ buffered' = buffered + n /\ UNCHANGED <<avail, pending, returning>>
Consume == \E n \in Nat : n >= 1 /\ n <= buffered /\ buffered' = buffered - n /\ pending' = pending + n /\ UNCHANGED <<avail, flight, returning>>
\* credits are returned in batches once at least half of the buffer is pending (any positive amount is safe)
Return == \E n \in Nat : n >= 1 /\ n <= pending /\ pending' = pending - n /\ returning' = returning + n /\ UNCHANGED <<avail, flight, buffered>>
Grant == \E n \in Nat : n >= 1 /\ n <= returning /\ returning' = returning - n /\ avail' = avail + n + Over /\ UNCHANGED <<flight, buffered, pending>>
Next == Send \/ Deliver \/ Consume \/ Return \/ Grant \/ UNCHANGED <<avail, flight, buffered, pending, returning>>
NonNeg == avail >= 0 /\ flight >= 0 /\ buffered >= 0 /\ pending >= 0 /\ returning >= 0
Conservation == avail + flight + buffered + pending + returning = B
IndInv == NonNeg /\ Conservation
IndInit == avail \in Int /\ flight \in Int /\ buffered \in Int /\ pending \in Int /\ returning \in Int /\ IndInv
\* consequences (C02): the receiver never buffers more than its advertised buffer, the wire never carries more than it
C02_BufferBound == buffered + flight <= B
C02_GrantBound == returning + avail <= B
=============================================================================
