SPECIFICATION Spec
CONSTANTS
  N = 4
  Subs = {1, 2}
  Readers = {1, 2}
  Atomic = TRUE
INVARIANT C13_DownstreamEqual
CHECK_DEADLOCK FALSE
