------------------------------- MODULE RchBase -------------------------------
(***************************************************************************)
(* Item framing of a typed (base) channel on top of one chmux port (C04).  *)
(* Sending item i is: its data message - one frame when it fits the        *)
(* buffered limit, otherwise a sequence of chunk frames of which the first *)
(* carries first = TRUE and the last carries last = TRUE - followed, when  *)
(* the item embeds channel halves, by one port-request message.  A send    *)
(* may stop at any point: serialization fails before anything is written   *)
(* ("early"), after some chunks ("late"), or the send future is dropped    *)
(* between the data and the port message ("noports"); the sender then goes *)
(* on with the next item.  The receiver has no knowledge of the sender's   *)
(* fate: a frame with first = TRUE while an item is in progress means the  *)
(* item in progress was abandoned (restart); the same holds when data      *)
(* arrives while the port message of a deserialized item is awaited - that *)
(* data frame belongs to the next item and must be kept.                   *)
(* Deviations:                                                             *)
(*   "losefirst" on a restart inside a chunk sequence the frame that       *)
(*               triggered it is dropped (the pinned tree's defect F1)     *)
(*   "dropstash" on a restart in the port phase the frame that triggered   *)
(*               it is dropped (seeded change C04_m2)                      *)
(***************************************************************************)
EXTENDS Integers, Sequences, FiniteSets, TLC
CONSTANTS N,          \* items 1..N
          Chunks,     \* item -> number of data frames (1 = buffered)
          HasPorts,   \* item -> BOOLEAN
          Dev
VARIABLES fate,      \* item -> "ok" | "early" | "late" | "noports" (chosen initially, then fixed)
          cur,       \* item the sender works on
          sent,      \* frames of cur already put on the wire
          wire,      \* frames in flight: [i, k ("data"|"ports"), first, last]
          rst,       \* receiver: "idle" | "data" | "ports"
          ritem,     \* item the receiver is assembling
          rframes,   \* data frames of ritem received so far
          delivered, \* sequence of items handed to the application
          bogus      \* TRUE once something was delivered incomplete
vars == <<fate, cur, sent, wire, rst, ritem, rframes, delivered, bogus>>
Items == 1..N
Good(i) == fate[i] = "ok"
LateAt(i) == IF Chunks[i] > 1 THEN Chunks[i] - 1 ELSE 0      \* frames a "late" failure leaves on the wire
Fates == {"ok", "early", "late", "noports"}
\* "noports" only makes sense for items with ports, "late" only for streamed items
Sensible(f) == \A i \in Items : (f[i] = "noports" => HasPorts[i]) /\ (f[i] = "late" => Chunks[i] > 1)
Init == fate \in {f \in [Items -> Fates] : Sensible(f)} /\ cur = 1 /\ sent = 0 /\ wire = <<>> /\ rst = "idle" /\ ritem = 0 /\ rframes = 0 /\ delivered = <<>> /\ bogus = FALSE
DataFrame(i, k) == [i |-> i, k |-> "data", first |-> (k = 1), last |-> (k = Chunks[i])]
\* ---- sender
SendFrame == /\ cur <= N /\ fate[cur] # "early"
             /\ sent < (IF fate[cur] = "late" THEN LateAt(cur) ELSE Chunks[cur])
             /\ wire' = Append(wire, DataFrame(cur, sent + 1)) /\ sent' = sent + 1
             /\ UNCHANGED <<cur, rst, ritem, rframes, delivered, bogus>>
SendPorts == /\ cur <= N /\ fate[cur] = "ok" /\ HasPorts[cur] /\ sent = Chunks[cur]
             /\ wire' = Append(wire, [i |-> cur, k |-> "ports", first |-> FALSE, last |-> FALSE]) /\ sent' = sent + 1
             /\ UNCHANGED <<cur, rst, ritem, rframes, delivered, bogus>>
\* the send call returns (successfully or not) and the sender moves on
NextItem == /\ cur <= N
            /\ CASE fate[cur] = "early" -> TRUE
                 [] fate[cur] = "late" -> sent = LateAt(cur)
                 [] fate[cur] = "noports" -> sent = Chunks[cur]
                 [] OTHER -> sent = Chunks[cur] + (IF HasPorts[cur] THEN 1 ELSE 0)
            /\ cur' = cur + 1 /\ sent' = 0
            /\ UNCHANGED <<wire, rst, ritem, rframes, delivered, bogus>>
\* ---- receiver: processes the head of the wire
StartItem(f) == /\ ritem' = f.i /\ rframes' = 1
                /\ IF f.last THEN (IF HasPorts[f.i] THEN rst' = "ports" /\ UNCHANGED delivered
                                   ELSE rst' = "idle" /\ delivered' = Append(delivered, f.i))
                   ELSE rst' = "data" /\ UNCHANGED delivered
Recv == /\ wire # <<>> /\ UNCHANGED <<cur, sent>>
        /\ LET f == Head(wire) IN
           /\ wire' = Tail(wire)
           /\ CASE rst = "idle" ->
                     IF f.k = "data" /\ f.first THEN StartItem(f) /\ UNCHANGED bogus
                     ELSE UNCHANGED <<rst, ritem, rframes, delivered, bogus>>             \* stray continuation / ports: ignored
                [] rst = "data" ->
                     IF f.k = "data" /\ ~f.first
                     THEN /\ rframes' = rframes + 1 /\ UNCHANGED <<ritem, bogus>>
                          /\ IF f.last THEN (IF HasPorts[ritem] THEN rst' = "ports" /\ UNCHANGED delivered
                                             ELSE rst' = "idle" /\ delivered' = Append(delivered, ritem))
                             ELSE UNCHANGED <<rst, delivered>>
                     ELSE IF f.k = "data"          \* first = TRUE: the item in progress was abandoned
                     THEN IF Dev = "losefirst" THEN rst' = "idle" /\ UNCHANGED <<ritem, rframes, delivered, bogus>>
                          ELSE StartItem(f) /\ UNCHANGED bogus
                     ELSE UNCHANGED <<rst, ritem, rframes, delivered, bogus>>
                [] rst = "ports" ->
                     IF f.k = "ports" THEN rst' = "idle" /\ delivered' = Append(delivered, ritem) /\ UNCHANGED <<ritem, rframes, bogus>>
                     ELSE \* data of the next item: the item awaiting its ports was abandoned
                          IF Dev = "dropstash" THEN rst' = "idle" /\ UNCHANGED <<ritem, rframes, delivered, bogus>>
                          ELSE IF f.first THEN StartItem(f) /\ UNCHANGED bogus
                          ELSE rst' = "idle" /\ UNCHANGED <<ritem, rframes, delivered, bogus>>
Next == (SendFrame \/ SendPorts \/ NextItem \/ Recv) /\ UNCHANGED fate
Fix(A) == A /\ UNCHANGED fate
Spec == Init /\ [][Next]_vars /\ WF_vars(Fix(Recv)) /\ WF_vars(Fix(SendFrame)) /\ WF_vars(Fix(SendPorts)) /\ WF_vars(Fix(NextItem))
\* ---- properties (C04)
GoodSeq == SelectSeq([i \in 1..N |-> i], LAMBDA i : Good(i))
IsPrefix(s, t) == Len(s) <= Len(t) /\ \A i \in 1..Len(s) : s[i] = t[i]
\* what the receiver obtains is a prefix of the successfully sent items, in order: failing items never arrive and never
\* take a neighbour with them
C04_Prefix == IsPrefix(delivered, GoodSeq)
\* and eventually all of them arrive
C04_AllDelivered == <>[](delivered = GoodSeq)
=============================================================================
