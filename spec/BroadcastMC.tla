---- MODULE BroadcastMC ----
EXTENDS Broadcast
CapC == [s \in {1, 2, 3} |-> IF s = 1 THEN 1 ELSE IF s = 2 THEN 2 ELSE 1]
====
