----------------------------- MODULE RtcTrace -----------------------------
(***************************************************************************)
(* Trace specification for remote trait calling (C12, C19).  The recorded  *)
(* events are the caller's view (c_call, c_ret, c_cancel) and the steps of *)
(* the callee body inside the real target object (x_start with the state   *)
(* it read, x_end with the state it wrote and the result it returned,      *)
(* x_drop when the execution future was dropped before its end).  The      *)
(* trace spec keeps the state of Rtc.tla - target value, set of running    *)
(* executions, per-call run count - advances it with the logged steps and  *)
(* compares every logged value with it:                                    *)
(*   x_start  ~ Dequeue (start of the body)   val read = model val         *)
(*   x_end    ~ Finish                        val written = read + k       *)
(*   x_drop   ~ Drop                                                       *)
(*   c_ret ok ~ Return                        value = result of own run    *)
(***************************************************************************)
EXTENDS Integers, Sequences, FiniteSets, TLC, Json, IOUtils
Rec == ndJsonDeserialize(IOEnv.TRACE)
VARIABLES l, calls, val, running, cut, srvEnded, oversized, undec, consumed, clients, bad
vars == <<l, calls, val, running, cut, srvEnded, oversized, undec, consumed, clients, bad>>
Ev == Rec[l]
Checked(p) == IOEnv.CHECK = "ALL" \/ p = IOEnv.CHECK \/ p = "TOOL"
Flag(p, why) == IF bad = <<>> /\ Checked(p) /\ PrintT("VIOLATION property=" \o p \o " line=" \o ToString(l) \o " reason=" \o why) THEN <<p, why, l>> ELSE bad
\* first condition (in order) that holds and whose property is being checked
RECURSIVE FirstOf(_)
FirstOf(cs) == IF cs = <<>> THEN bad
               ELSE IF cs[1][1] /\ Checked(cs[1][2]) THEN Flag(cs[1][2], cs[1][3]) ELSE FirstOf(Tail(cs))
Is(e) == l <= Len(Rec) /\ Ev.ev = e /\ l' = l + 1
Put(f, k, v) == IF k \in DOMAIN f THEN [f EXCEPT ![k] = v] ELSE f @@ (k :> v)
Mut(m) == m \in {"add", "add_nc", "hang", "take", "take_hang", "fmut", "bump"}      \* exclusive access to the target
Cancellable(m) == m # "add_nc"
\* calls[c] = [m, k, cl, ep, st: "pending"|"ok"|"err"|"cancel", runs, xst: "none"|"run"|"end"|"drop", ret, polls]
Known(c) == c \in DOMAIN calls
\* cut = set of endpoints whose connection to the server failed; a call is healthy if its caller's connection is
HealthyEp(ep) == ep \notin cut /\ ~srvEnded /\ ~consumed
Healthy == cut = {} /\ ~srvEnded /\ ~consumed

Init == l = 1 /\ calls = <<>> /\ val = 0 /\ running = {} /\ cut = {} /\ srvEnded = FALSE /\ oversized = FALSE /\ undec = FALSE /\ consumed = FALSE /\ clients = <<>> /\ bad = <<>>
Reset == /\ Is("reset") /\ calls' = <<>> /\ val' = 0 /\ running' = {} /\ cut' = {} /\ srvEnded' = FALSE /\ oversized' = FALSE /\ undec' = FALSE
         /\ consumed' = FALSE /\ clients' = <<>> /\ bad' = bad
Call == /\ Is("c_call")
        /\ calls' = Put(calls, Ev.call, [m |-> Ev.m, k |-> Ev.k, cl |-> Ev.cl, ep |-> Ev.ep, st |-> "pending", runs |-> 0, xst |-> "none", ret |-> 0, polls |-> Ev.polls])
        \* requests and replies of local callers are never encoded: only remote callers (ep 2) can be undecodable / oversized
        /\ undec' = (undec \/ (Ev.ep = 2 /\ (Ev.m = "extra" \/ (Ev.m = "picky" /\ Ev.k = 1))))
        /\ UNCHANGED <<val, running, cut, srvEnded, oversized, consumed, clients, bad>>
XStart == /\ Is("x_start")
          /\ LET c == Ev.call  k == Known(c)  it == IF k THEN calls[c] ELSE [m |-> "", runs |-> 0] IN
             /\ calls' = IF k THEN [calls EXCEPT ![c].runs = @ + 1, ![c].xst = "run"] ELSE calls
             /\ running' = IF k THEN running \cup {c} ELSE running
             /\ bad' = FirstOf(<<
                  <<~k, "C12", "callee ran for a call that was never made">>,
                  <<k /\ it.runs >= 1, "C12", "callee body ran twice for one call">>,
                  <<k /\ it.m # Ev.m, "C12", "callee ran a different method than the one called">>,
                  <<\E d \in running : Mut(calls[d].m), "C12", "an execution started while a mutable method was executing (not atomic)">>,
                  <<Mut(Ev.m) /\ running # {}, "C12", "a mutable method started while another execution was in progress (not atomic)">>,
                  <<Ev.val # val, "C12", "execution observed a target state that is not the result of the executions completed before it">> >>)
          /\ UNCHANGED <<val, cut, srvEnded, oversized, undec, consumed, clients>>
XEnd == /\ Is("x_end")
        /\ LET c == Ev.call  k == Known(c)  it == IF k THEN calls[c] ELSE [m |-> "", k |-> 0, ep |-> 0] IN
           /\ calls' = IF k THEN [calls EXCEPT ![c].xst = "end", ![c].ret = Ev.ret] ELSE calls
           /\ running' = running \ {c}
           /\ val' = IF Ev.m \in {"add", "add_nc", "fmut"} THEN val + it.k ELSE IF Ev.m = "bump" THEN val + 2 * it.k ELSE val
           /\ consumed' = (consumed \/ Ev.m = "take")
           /\ oversized' = (oversized \/ (Ev.m = "big" /\ Ev.ret > 300 /\ it.ep = 2))
           /\ bad' = FirstOf(<<
                <<c \notin running, "C12", "execution ended that was not running">>,
                <<Ev.before # val, "C12", "target state changed under a running execution (not atomic)">>,
                <<Ev.m \in {"add", "add_nc", "fmut"} /\ Ev.after # val + it.k, "C12", "mutation result is not state + argument: arguments mixed up or update lost">>,
                <<Ev.m \in {"get", "take", "picky"} /\ (Ev.after # val \/ Ev.ret # val), "C12", "read result differs from the target state">>,
                <<Ev.m = "bump" /\ Ev.after # val + 2 * it.k, "C12", "mutation result is not state + argument: arguments mixed up or update lost">>,
                <<Ev.m = "fconst" /\ Ev.ret # val + it.k, "C12", "function result does not belong to the arguments passed">> >>)
        /\ UNCHANGED <<cut, srvEnded, undec, clients>>
XDrop == /\ Is("x_drop")
         /\ LET c == Ev.call  k == Known(c) IN
            /\ calls' = IF k THEN [calls EXCEPT ![c].xst = "drop"] ELSE calls
            /\ running' = running \ {c}
            /\ bad' = FirstOf(<<
                 <<k /\ calls[c].m = "add_nc" /\ ~srvEnded /\ ~oversized, "C19", "execution of a non-cancellable method was abandoned">>,
                 <<k /\ calls[c].m = "add_nc" /\ ~srvEnded /\ ~oversized, "C12", "a non-cancellable mutable method was interrupted half-way: the target is left in a state no call explains">>,
                 <<k /\ calls[c].m = "fmut" /\ cut = {} /\ ~srvEnded, "C12", "a mutable remote function was interrupted half-way (it must run each request once, to completion)">> >>)
         /\ UNCHANGED <<val, cut, srvEnded, oversized, undec, consumed, clients>>
Ret == /\ Is("c_ret")
       /\ LET c == Ev.call  it == calls[c]
              wellFormed == it.m \in {"get", "add", "add_nc", "bump", "fmut", "fconst", "fonce"} IN
          /\ calls' = [calls EXCEPT ![c].st = Ev.r]
          /\ bad' = IF Ev.r = "ok" THEN FirstOf(<<
                       <<it.xst # "end" \/ it.runs # 1, "C12", "call returned a result although its callee did not run exactly once to completion">>,
                       <<it.m # "big" /\ Ev.v # it.ret, "C12", "call returned a result that is not the result of its own execution">>,
                       <<it.m = "big" /\ Ev.v # it.ret, "C12", "call returned a reply of a different size than its execution produced">>,
                       <<it.m = "big" /\ Ev.v > 300 /\ it.ep = 2, "C19", "a reply over the size limit was delivered">>,
                       <<it.ep = 2 /\ (it.m = "extra" \/ (it.m = "picky" /\ it.k = 1)), "C19", "an undecodable or unknown request returned a result">> >>)
                    ELSE FirstOf(<<
                       <<wellFormed /\ HealthyEp(it.ep) /\ oversized, "C19", "oversized reply: an unrelated call failed after a reply exceeded the size limit">>,
                       <<wellFormed /\ HealthyEp(it.ep) /\ ~oversized /\ undec, "C19", "an unrelated call failed after an undecodable or unknown request">>,
                       <<wellFormed /\ HealthyEp(it.ep) /\ ~oversized /\ ~undec, "C19", "a well-formed call failed although the server and the caller's connection are healthy">>,
                       <<wellFormed /\ HealthyEp(it.ep) /\ ~oversized /\ ~undec, "C12", "a well-formed call failed although the server and the caller's connection are healthy">> >>)
          /\ UNCHANGED <<val, running, cut, srvEnded, oversized, undec, consumed, clients>>
Cancel == /\ Is("c_cancel") /\ calls' = [calls EXCEPT ![Ev.call].st = "cancel"]
          /\ UNCHANGED <<val, running, cut, srvEnded, oversized, undec, consumed, clients, bad>>
CNew == /\ Is("c_new") /\ clients' = Put(clients, Ev.cl, [ep |-> Ev.ep, done |-> FALSE])
        /\ UNCHANGED <<calls, val, running, cut, srvEnded, oversized, undec, consumed, bad>>
CDone == /\ Is("c_done") /\ clients' = IF Ev.cl \in DOMAIN clients THEN [clients EXCEPT ![Ev.cl].done = TRUE] ELSE clients
         /\ UNCHANGED <<calls, val, running, cut, srvEnded, oversized, undec, consumed, bad>>
Fault == /\ Is("fault") /\ cut' = cut \cup {IF "ep" \in DOMAIN Ev THEN Ev.ep ELSE 2} /\ UNCHANGED <<calls, val, running, srvEnded, oversized, undec, consumed, clients, bad>>
SrvEnd == /\ Is("srv_end") /\ srvEnded' = TRUE
          /\ LET clientsLeft == \E c \in DOMAIN clients : ~clients[c].done /\ clients[c].ep \notin cut IN
             bad' = FirstOf(<<
                <<~Ev.ok /\ oversized /\ cut = {}, "C19", "oversized reply: the server stopped serving after a reply exceeded the size limit">>,
                <<~Ev.ok /\ ~oversized /\ cut = {}, "C19", "the server stopped serving with an error although no connection was lost">>,
                <<clientsLeft /\ ~oversized /\ ~consumed, "C19", "the server stopped serving while clients on healthy connections were still connected">> >>)
          /\ UNCHANGED <<calls, val, running, cut, oversized, undec, consumed, clients>>
ClientsEnd == /\ Is("r_clients_end")
              /\ bad' = FirstOf(<<
                   <<Ev.pending > 0 /\ oversized, "C19", "oversized reply: calls never completed after a reply exceeded the size limit">>,
                   <<Ev.pending > 0, "C19", "calls never completed: the server is wedged or a call was lost">>,
                   <<Ev.pending > 0, "C12", "a call never completed with an outcome">> >>)
              /\ UNCHANGED <<calls, val, running, cut, srvEnded, oversized, undec, consumed, clients>>
End == /\ Is("r_end")
       /\ bad' = FirstOf(<<
            <<Ev.server_pending > 0 /\ Ev.pending = 0 /\ cut = {}, "C19", "the server did not end after all of its clients were dropped">>,
            <<\E c \in DOMAIN calls : calls[c].m = "add_nc" /\ calls[c].xst = "run" /\ cut = {} /\ ~oversized /\ Ev.server_pending = 0, "C19", "a non-cancellable execution never finished">> >>)
       \* what is logged after r_end is the harness tearing the scenario down (tasks and connections are aborted)
       /\ srvEnded' = TRUE
       /\ UNCHANGED <<calls, val, running, cut, oversized, undec, consumed, clients>>
KnownEv == {"c_new", "c_done", "reset", "c_call", "x_start", "x_end", "x_drop", "c_ret", "c_cancel", "fault", "srv_end", "r_clients_end", "r_end"}
Skip == /\ l <= Len(Rec) /\ Ev.ev \notin KnownEv /\ l' = l + 1 /\ UNCHANGED <<calls, val, running, cut, srvEnded, oversized, undec, consumed, clients, bad>>
Next == CNew \/ CDone \/ Reset \/ Call \/ XStart \/ XEnd \/ XDrop \/ Ret \/ Cancel \/ Fault \/ SrvEnd \/ ClientsEnd \/ End \/ Skip
Spec == Init /\ [][Next]_vars
Inv_C12 == bad = <<>> \/ bad[1] # "C12"
Inv_C19 == bad = <<>> \/ bad[1] # "C19"
Inv_TOOL == bad = <<>> \/ bad[1] # "TOOL"
Accepted == IF TLCGet("stats").diameter - 1 = Len(Rec) THEN TRUE
            ELSE Print(<<"TRACE NOT CONSUMED", TLCGet("stats").diameter - 1, Len(Rec)>>, FALSE)
=============================================================================
