SPECIFICATION Spec
INVARIANTS Inv_C18 Inv_TOOL
POSTCONDITION Accepted
CHECK_DEADLOCK FALSE
