SPECIFICATION Spec
INVARIANTS
  Inv_C12
  Inv_C19
  Inv_TOOL
POSTCONDITION Accepted
CHECK_DEADLOCK FALSE
