SPECIFICATION Spec
CONSTANTS
  N = 5
  Buf = 2
  MaxSize = 4
  NoMarker = TRUE
INVARIANTS C14_ShowsHistory C14_NoGap C14_FinishedMeansEqual
PROPERTY C14_NoSilentDivergence
CHECK_DEADLOCK FALSE
