----------------------------- MODULE ChmuxPeer -----------------------------
(***************************************************************************)
(* What a chmux endpoint must do with ANY frame it receives (C08): a       *)
(* transcription of the state checks of the dispatcher's receive path      *)
(* (handle_received_msg, one case per message kind) as a pure function     *)
(*     Handle(state, frame) = [s |-> state', v |-> verdict]                *)
(* verdict: "run" (keeps operating), "protocol" (terminates with a         *)
(* protocol error), "reset", "bye" (orderly end after Goodbye).            *)
(* The endpoint state is what the peer can influence: ports (connecting /  *)
(* connected with the half-closed flags and the credits in use), the       *)
(* outstanding open requests, the listener queues, the sender credit pool. *)
(* Local users are passive in this model (nothing is consumed, accepted or *)
(* dropped), which makes the verdict a function of the frame history; the  *)
(* conformance workloads keep the real endpoint's users passive as well.   *)
(* ChmuxPeerMC explores every frame sequence over a finite alphabet,       *)
(* ChmuxPeerTrace validates recorded runs of a real endpoint against a     *)
(* scripted (benign or hostile) peer.                                      *)
(***************************************************************************)
EXTENDS Integers, Sequences, FiniteSets

\* frames are records as produced by Wire!Dec plus, for Data, the payload length in field `len`
\* the configuration of the endpoint under test is passed as a record c = [chunk, rbuf, cq]

Huge == 1073741824      \* credit amounts at or above this overflow the pool (see Wire!Val)

State0 == [ports |-> <<>>,          \* port id :> [st, used, rsf, rrc, rrd]
           outst |-> {},            \* remote port ids with an outstanding open request
           qWait |-> 0, qNoWait |-> 0,   \* entries in the listener queues (capacity CQ + 1 each)
           listener |-> TRUE,       \* local listener alive
           rld |-> FALSE,           \* the peer announced that its listener is gone: local connects are refused locally
           poolBig |-> FALSE,       \* a huge credit grant has been received on some port
           hdr |-> <<>>]            \* Data header waiting for its payload frame

Has(f, k) == k \in DOMAIN f
Connected(s, p) == Has(s.ports, p) /\ s.ports[p].st = "connected"
Connecting(s, p) == Has(s.ports, p) /\ s.ports[p].st = "connecting"
NewPort == [st |-> "connected", used |-> 0, rsf |-> FALSE, rrc |-> FALSE, rrd |-> FALSE, huge |-> FALSE]
With(f, k, v) == [x \in DOMAIN f \cup {k} |-> IF x = k THEN v ELSE f[x]]
Run(s) == [s |-> s, v |-> "run"]
Err(s) == [s |-> s, v |-> "protocol"]

\* credits used by a frame
Cost(len) == IF len = 0 THEN 1 ELSE len

Handle(c, s, f) ==
    LET Chunk == c.chunk  RBuf == c.rbuf  CQ == c.cq IN
    CASE f.k = "Bad" -> Err(s)
      [] f.k = "Reset" -> [s |-> s, v |-> "reset"]
      [] f.k = "Hello" -> Err(s)
      [] f.k = "Ping" -> Run(s)
      [] f.k = "OpenPort" ->
            IF f.client \in s.outst THEN Err(s)
            ELSE LET s1 == [s EXCEPT !.outst = @ \cup {f.client}] IN
                 IF ~s.listener THEN Run(s1)
                 ELSE IF f.wait THEN (IF s.qWait >= CQ + 1 THEN Err(s1) ELSE Run([s1 EXCEPT !.qWait = @ + 1]))
                 ELSE (IF s.qNoWait >= CQ + 1 THEN Err(s1) ELSE Run([s1 EXCEPT !.qNoWait = @ + 1]))
      [] f.k = "PortOpened" ->
            IF Connecting(s, f.client) THEN Run([s EXCEPT !.ports = With(@, f.client, NewPort)]) ELSE Err(s)
      [] f.k = "Rejected" ->
            IF Connecting(s, f.client) THEN Run([s EXCEPT !.ports = [x \in DOMAIN @ \ {f.client} |-> @[x]]]) ELSE Err(s)
      [] f.k = "Data" ->
            \* header and payload are one received message; f.len is the length of the payload frame
            IF Connected(s, f.port) /\ ~s.ports[f.port].rsf
              THEN IF f.len > Chunk THEN Err(s)
                   ELSE IF s.ports[f.port].used + Cost(f.len) > RBuf THEN Err(s)
                   ELSE Run([s EXCEPT !.ports[f.port].used = @ + Cost(f.len)])
              ELSE Err(s)
      [] f.k = "PortData" ->
            IF Connected(s, f.port) /\ ~s.ports[f.port].rsf
              THEN LET n == Len(f.ports)
                       dupIn == \E i, j \in 1..n : i < j /\ f.ports[i] = f.ports[j]
                       dup == dupIn \/ \E i \in 1..n : f.ports[i] \in s.outst
                       s1 == [s EXCEPT !.outst = @ \cup {f.ports[i] : i \in 1..n}] IN
                   IF dup THEN Err(s1)
                   ELSE IF 4 * n > Chunk THEN Err(s1)
                   ELSE IF s.ports[f.port].used + 4 * n > RBuf THEN Err(s1)
                   ELSE Run([s1 EXCEPT !.ports[f.port].used = @ + 4 * n])
              ELSE Err(s)
      [] f.k = "PortCredits" ->
            IF Connected(s, f.port)
              \* the pool starts at the peer's (positive) buffer size and nothing is sent: a grant near 2^32 overflows it
              THEN (IF f.credits >= Huge THEN Err(s) ELSE Run(s))
              ELSE Err(s)
      [] f.k = "SendFinish" ->
            IF Connected(s, f.port) /\ ~s.ports[f.port].rsf THEN Run([s EXCEPT !.ports[f.port].rsf = TRUE]) ELSE Err(s)
      [] f.k = "ReceiveClose" ->
            IF Connected(s, f.port) /\ ~s.ports[f.port].rrc THEN Run([s EXCEPT !.ports[f.port].rrc = TRUE]) ELSE Err(s)
      [] f.k = "ReceiveFinish" ->
            IF Connected(s, f.port) THEN Run([s EXCEPT !.ports[f.port].rrc = TRUE, !.ports[f.port].rrd = TRUE]) ELSE Err(s)
      [] f.k = "ClientFinish" ->
            IF ~s.listener THEN Run(s)
            ELSE IF s.qWait >= CQ + 1 \/ s.qNoWait >= CQ + 1
                   THEN Err([s EXCEPT !.qWait = IF @ >= CQ + 1 THEN @ ELSE @ + 1, !.qNoWait = IF @ >= CQ + 1 THEN @ ELSE @ + 1])
                   ELSE Run([s EXCEPT !.qWait = @ + 1, !.qNoWait = @ + 1])
      [] f.k = "ListenerFinish" -> Run([s EXCEPT !.rld = TRUE])
      [] f.k = "Goodbye" -> [s |-> s, v |-> "bye"]
      [] OTHER -> Err(s)

\* local action of the endpoint under test: a client connect puts a port into the connecting state
LocalConnect(s, p) == IF s.rld THEN s ELSE [s EXCEPT !.ports = With(@, p, [st |-> "connecting"])]
\* the endpoint accepted a remote request (its PortOpened was seen): request answered, port connected
LocalAccepted(s, client, server) == [s EXCEPT !.outst = @ \ {client}, !.ports = With(@, server, NewPort)]
LocalRejected(s, client) == [s EXCEPT !.outst = @ \ {client}]

\* bytes buffered for undelivered port data never exceed the advertised buffer
BufferedOK(c, s) == LET RBuf == c.rbuf IN \A p \in DOMAIN s.ports : s.ports[p].st = "connected" => s.ports[p].used <= RBuf
=============================================================================
