------------------------------- MODULE IoTrace -------------------------------
(***************************************************************************)
(* Trace specification for I/O channels (C18).  The recorded events are    *)
(* the results of write / flush / shutdown on the sender and of read on    *)
(* the receiver (each read is compared in place with the byte pattern of   *)
(* its offset by the harness: "match").  The trace spec keeps the state of *)
(* IoChan.tla that the API exposes - bytes accepted, bytes returned, how   *)
(* the sender ended - and checks every step against IoChan's rules.        *)
(***************************************************************************)
EXTENDS Integers, Sequences, FiniteSets, TLC, Json, IOUtils
Rec == ndJsonDeserialize(IOEnv.TRACE)
VARIABLES l, cfg, written, nread, sst, rst, cut, bad
vars == <<l, cfg, written, nread, sst, rst, cut, bad>>
Ev == Rec[l]
Checked(p) == IOEnv.CHECK = "ALL" \/ p = IOEnv.CHECK \/ p = "TOOL"
Flag(p, why) == IF bad = <<>> /\ Checked(p) /\ PrintT("VIOLATION property=" \o p \o " line=" \o ToString(l) \o " reason=" \o why) THEN <<p, why, l>> ELSE bad
RECURSIVE FirstOf(_)
FirstOf(cs) == IF cs = <<>> THEN bad ELSE IF cs[1][1] THEN Flag("C18", cs[1][2]) ELSE FirstOf(Tail(cs))
Is(e) == l <= Len(Rec) /\ Ev.ev = e /\ l' = l + 1
Has(f) == f \in DOMAIN Ev
Sized == cfg.sized
Size == cfg.size
\* sst: "open" | "shutdown_ok" | "shutdown_err" | "dropped" (without shutdown) ; rst: "reading" | "eof" | "err"
Init == l = 1 /\ cfg = [sized |-> FALSE, size |-> 0, chunk |-> 1] /\ written = 0 /\ nread = 0 /\ sst = "open" /\ rst = "reading" /\ cut = FALSE /\ bad = <<>>
Reset == /\ Is("reset") /\ cfg' = [sized |-> Ev.sized, size |-> Ev.size, chunk |-> Ev.chunk]
         /\ written' = 0 /\ nread' = 0 /\ sst' = "open" /\ rst' = "reading" /\ cut' = FALSE /\ bad' = bad
Write == /\ Is("io_write") /\ written' = written + Ev.n
         /\ bad' = FirstOf(<<
              <<Ev.off # written, "write offset does not continue the bytes accepted so far">>,
              <<Ev.n > Ev.req, "write reported more bytes than requested">>,
              <<Ev.n > cfg.chunk, "write accepted more than one chunk">>,
              <<Sized /\ written + Ev.n > Size, "a write beyond the fixed size was accepted">>,
              <<Ev.n = 0 /\ Ev.req > 0 /\ ~cut, "write of a non-empty buffer accepted nothing without an error">>,
              <<sst # "open", "write accepted after shutdown">> >>)
         /\ UNCHANGED <<cfg, nread, sst, rst, cut>>
WriteErr == /\ Is("io_write_err")
            /\ bad' = FirstOf(<<
                 <<~cut /\ ~(Sized /\ written >= Size) /\ rst # "err", "write failed on a healthy channel with room left">> >>)
            /\ UNCHANGED <<cfg, written, nread, sst, rst, cut>>
Flush == /\ Is("io_flush")
         /\ bad' = FirstOf(<< <<~Ev.ok /\ ~cut /\ rst # "err", "flush failed on a healthy channel">> >>)
         /\ UNCHANGED <<cfg, written, nread, sst, rst, cut>>
Shutdown == /\ Is("io_shutdown") /\ sst' = IF Ev.ok THEN "shutdown_ok" ELSE "shutdown_err"
            /\ bad' = FirstOf(<<
                 <<Ev.written # written, "harness: written counter mismatch">>,
                 <<Ev.ok /\ Sized /\ written # Size, "shutdown succeeded although fewer bytes than the fixed size were written">>,
                 <<~Ev.ok /\ ~cut /\ rst # "err" /\ (~Sized \/ written = Size), "shutdown of a complete stream failed on a healthy channel">> >>)
            /\ UNCHANGED <<cfg, written, nread, rst, cut>>
DropTx == /\ Is("io_drop_tx") /\ sst' = IF sst = "open" THEN "dropped" ELSE sst
          /\ UNCHANGED <<cfg, written, nread, rst, cut, bad>>
Read == /\ Is("io_read") /\ nread' = nread + Ev.n
        /\ bad' = FirstOf(<<
             <<Ev.off # nread, "harness: read offset mismatch">>,
             <<~Ev.match, "bytes read differ from the bytes written at that offset">>,
             <<nread + Ev.n > written, "more bytes read than were written">>,
             <<Ev.n > Ev.cap, "read returned more than the buffer holds">>,
             <<Sized /\ nread + Ev.n > Size, "more bytes read than the fixed size">>,
             <<rst # "reading", "data returned after end-of-file or error">> >>)
        /\ UNCHANGED <<cfg, written, sst, rst, cut>>
Eof == /\ Is("io_eof") /\ rst' = "eof"
       /\ bad' = FirstOf(<<
            <<Ev.total # nread, "harness: read counter mismatch">>,
            <<Sized /\ nread # Size, "end-of-file reported although fewer bytes than the fixed size were delivered (silent truncation)">>,
            <<~Sized /\ sst \notin {"shutdown_ok", "open"}, "end-of-file reported although the sender never announced a total (dropped without shutdown)">>,
            <<~Sized /\ nread # written /\ sst = "shutdown_ok", "end-of-file reported although the total differs from the announced one (silent truncation)">>,
            <<~Sized /\ sst = "open", "end-of-file reported before the sender shut down">>,
            <<~Sized /\ Ev.size # nread, "size() after end-of-file differs from the bytes delivered">> >>)
       /\ UNCHANGED <<cfg, written, nread, sst, cut>>
EofAgain == /\ Is("io_eof_again")
            /\ bad' = FirstOf(<< <<~Ev.ok, "read after end-of-file did not report end-of-file again">> >>)
            /\ UNCHANGED <<cfg, written, nread, sst, rst, cut>>
ReadErr == /\ Is("io_read_err") /\ rst' = "err"
           /\ bad' = FirstOf(<<
                <<~cut /\ sst = "shutdown_ok" /\ nread = written /\ (Sized => written = Size), "complete, properly shut down stream was reported as an error">>,
                <<~cut /\ Sized /\ nread = Size, "read failed although all bytes of the fixed size had been delivered">>,
                <<~cut /\ sst = "open", "read failed on a healthy channel whose sender is still open">> >>)
           /\ UNCHANGED <<cfg, written, nread, sst, cut>>
TransferFailed == /\ Is("io_transfer_failed") /\ rst' = "err"
                  /\ bad' = FirstOf(<< <<~cut, "a channel half could not be moved to the other endpoint over a healthy connection">> >>)
                  /\ UNCHANGED <<cfg, written, nread, sst, cut>>
Fault == /\ Is("fault") /\ cut' = TRUE /\ UNCHANGED <<cfg, written, nread, sst, rst, bad>>
End == /\ Is("io_end")
       /\ bad' = FirstOf(<<
            <<Ev.pending > 0, "reader or writer never finished (hang)">>,
            <<rst = "reading", "harness: reader ended without a verdict">> >>)
       /\ UNCHANGED <<cfg, written, nread, sst, rst, cut>>
Known == {"io_transfer_failed", "reset", "io_write", "io_write_err", "io_flush", "io_shutdown", "io_drop_tx", "io_read", "io_eof", "io_eof_again", "io_read_err", "fault", "io_end"}
Skip == /\ l <= Len(Rec) /\ Ev.ev \notin Known /\ l' = l + 1 /\ UNCHANGED <<cfg, written, nread, sst, rst, cut, bad>>
Next == TransferFailed \/ Reset \/ Write \/ WriteErr \/ Flush \/ Shutdown \/ DropTx \/ Read \/ Eof \/ EofAgain \/ ReadErr \/ Fault \/ End \/ Skip
Spec == Init /\ [][Next]_vars
Inv_C18 == bad = <<>> \/ bad[1] # "C18"
Inv_TOOL == bad = <<>> \/ bad[1] # "TOOL"
Accepted == IF TLCGet("stats").diameter - 1 = Len(Rec) THEN TRUE
            ELSE Print(<<"TRACE NOT CONSUMED", TLCGet("stats").diameter - 1, Len(Rec)>>, FALSE)
=============================================================================
