------------------------------ MODULE RobsGen ------------------------------
(* Behaviour generator for the observable-collection replay (C13): random walks over the operations of RobsMC
   (TLC simulation mode), each printed as one JSON script: collection kind, initial contents, subscription point,
   subscription mode and the operation sequence. *)
EXTENDS RobsMC
CONSTANTS Depth
VARIABLES s0, hist, subAt, mode, mx
gvars == <<kind, s, op, s0, hist, subAt, mode, mx>>
Size(k, st) == IF k \in {"vec", "deque", "list"} THEN Len(st) ELSE Cardinality(DOMAIN st)
MaxOf(a, b) == IF a > b THEN a ELSE b

Canon(k, st) == IF k \in {"vec", "deque", "list"} THEN st
                ELSE LET ks == SelectSeq(<<1, 2, 3, 4>>, LAMBDA x : x \in DOMAIN st) IN [j \in 1..Len(ks) |-> <<ks[j], st[ks[j]]>>]
NoDone(o) == o.o # "done"
GInit == /\ kind \in Kinds /\ s0 \in States(kind) /\ s = s0 /\ op = [o |-> "none"] /\ hist = <<>> /\ mx = Size(kind, s0)
         /\ subAt \in 0..Depth /\ mode \in (IF kind = "list" THEN {"incr"} ELSE {"snap", "incr"})
GNext == /\ Len(hist) < Depth
         /\ \E o \in Ops(kind, s) :
              /\ (Len(hist) < Depth - 1 => NoDone(o))          \* done only as the last operation
              /\ (kind \in {"vec", "deque", "list"} => Len(Apply(kind, s, o)) <= MaxLen + 1)
              /\ op' = o /\ s' = Apply(kind, s, o) /\ hist' = Append(hist, o) /\ mx' = MaxOf(mx, Size(kind, Apply(kind, s, o)))
         /\ UNCHANGED <<kind, s0, subAt, mode>>
GSpec == GInit /\ [][GNext]_gvars
GEmit == Len(hist) = Depth => PrintT(ToJson([coll |-> kind, init |-> Canon(kind, s0), sub_at |-> subAt, mode |-> mode, ops |-> hist, tight |-> mx]))
=============================================================================
