SPECIFICATION Spec
CONSTANTS
  N = 4
  Chunks <- MCChunks
  HasPorts <- MCHasPorts
  Dev = "losefirst"
INVARIANT C04_Prefix
PROPERTY C04_AllDelivered
CHECK_DEADLOCK FALSE
