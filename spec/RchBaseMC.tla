------------------------------ MODULE RchBaseMC ------------------------------
(* Bounded instance of RchBase: every sensible assignment of fates to four items of mixed shape
   (streamed with ports, buffered with ports, streamed without ports, buffered without ports). *)
EXTENDS RchBase
MCChunks == (1 :> 3) @@ (2 :> 1) @@ (3 :> 2) @@ (4 :> 1)
MCHasPorts == (1 :> TRUE) @@ (2 :> TRUE) @@ (3 :> FALSE) @@ (4 :> FALSE)
=============================================================================
