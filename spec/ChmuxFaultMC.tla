---- MODULE ChmuxFaultMC ----
EXTENDS ChmuxFault
TA == <<4, 4>>
TB == <<4, 6>>
====
