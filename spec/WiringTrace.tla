----------------------------- MODULE WiringTrace -----------------------------
(***************************************************************************)
(* Trace specification for the wiring of embedded channel halves (C05).    *)
(* Every channel of a scenario has an id (cid) known to both of its ends;  *)
(* whatever travels through the channel carries the cid of the end that    *)
(* produced it.  h_use is the far end using the half it received, h_peer   *)
(* the counterpart kept at the origin: got = cid of what arrived, -1 an    *)
(* error, -2 no result within the bound (hang).  This is Wiring.tla's      *)
(* peer[h] = PortOf(h) (C05_OneToOne) and the both-ends failure rule       *)
(* observed at the API.                                                    *)
(***************************************************************************)
EXTENDS Integers, Sequences, FiniteSets, TLC, Json, IOUtils
Rec == ndJsonDeserialize(IOEnv.TRACE)
VARIABLES l, cfg, items, arrived, cut, bad
vars == <<l, cfg, items, arrived, cut, bad>>
Ev == Rec[l]
Checked(p) == IOEnv.CHECK = "ALL" \/ p = IOEnv.CHECK \/ p = "TOOL"
Flag(p, why) == IF bad = <<>> /\ Checked(p) /\ PrintT("VIOLATION property=" \o p \o " line=" \o ToString(l) \o " reason=" \o why) THEN <<p, why, l>> ELSE bad
RECURSIVE FirstOf(_)
FirstOf(cs) == IF cs = <<>> THEN bad ELSE IF cs[1][1] THEN Flag("C05", cs[1][2]) ELSE FirstOf(Tail(cs))
Is(e) == l <= Len(Rec) /\ Ev.ev = e /\ l' = l + 1
Put(f, k, v) == IF k \in DOMAIN f THEN [f EXCEPT ![k] = v] ELSE f @@ (k :> v)
\* generous = no artificial port limit: every half of a delivered value must connect
Generous == cfg.max_ports = 0
Init == l = 1 /\ cfg = [max_ports |-> 0, hops |-> 1] /\ items = <<>> /\ arrived = {} /\ cut = FALSE /\ bad = <<>>
Reset == /\ Is("reset") /\ cfg' = [max_ports |-> Ev.max_ports, hops |-> Ev.hops] /\ items' = <<>> /\ arrived' = {} /\ cut' = FALSE /\ bad' = bad
Item == /\ Is("w_item") /\ items' = Put(items, Ev.id, Ev.cids) /\ UNCHANGED <<cfg, arrived, cut, bad>>
Lost == /\ Is("w_lost")
        /\ bad' = FirstOf(<< <<Generous /\ ~cut, "a value with embedded channel halves could not be sent over a healthy connection">> >>)
        /\ UNCHANGED <<cfg, items, arrived, cut>>
Recv == /\ Is("w_recv") /\ arrived' = arrived \cup {Ev.cids[i] : i \in 1..Len(Ev.cids)}
        /\ bad' = FirstOf(<<
             <<Ev.id \notin DOMAIN items, "received a value that was never sent">>,
             <<Ev.id \in DOMAIN items /\ Ev.cids # items[Ev.id], "the halves of the received value are not the halves of the value sent, in their positions">> >>)
        /\ UNCHANGED <<cfg, items, cut>>
Use == /\ l <= Len(Rec) /\ Ev.ev \in {"h_use", "h_peer"} /\ l' = l + 1
       /\ bad' = FirstOf(<<
            <<Ev.got >= 0 /\ Ev.got # Ev.cid, "a channel half is connected to the counterpart of a different channel">>,
            <<Ev.got = 0 - 2, "an end of an embedded channel neither completed nor failed (hang)">>,
            <<Ev.got = 0 - 1 /\ Generous /\ ~cut /\ Ev.cid \in arrived /\ Ev.ev = "h_use", "a half of a delivered value is not connected to its counterpart">>,
            <<Ev.got = 0 - 1 /\ Generous /\ ~cut /\ Ev.cid \in arrived /\ Ev.ev = "h_peer", "the counterpart of a delivered half failed although nothing was exhausted or cut">> >>)
       /\ UNCHANGED <<cfg, items, arrived, cut>>
Oversize == /\ Is("st_oversize_emitted")
            /\ bad' = FirstOf(<< <<TRUE, "port requests were packed into a frame longer than the peer's stream transport accepts (the connection is lost)">> >>)
            /\ UNCHANGED <<cfg, items, arrived, cut>>
Fault == /\ Is("fault") /\ cut' = TRUE /\ UNCHANGED <<cfg, items, arrived, bad>>
End == /\ Is("w_end")
       /\ bad' = FirstOf(<< <<Ev.pending > 0, "tasks using embedded channel halves never finished (hang)">> >>)
       /\ UNCHANGED <<cfg, items, arrived, cut>>
Known == {"st_oversize_emitted", "reset", "w_item", "w_lost", "w_recv", "h_use", "h_peer", "fault", "w_end"}
Skip == /\ l <= Len(Rec) /\ Ev.ev \notin Known /\ l' = l + 1 /\ UNCHANGED <<cfg, items, arrived, cut, bad>>
Next == Oversize \/ Reset \/ Item \/ Lost \/ Recv \/ Use \/ Fault \/ End \/ Skip
Spec == Init /\ [][Next]_vars
Inv_C05 == bad = <<>> \/ bad[1] # "C05"
Inv_TOOL == bad = <<>> \/ bad[1] # "TOOL"
Accepted == IF TLCGet("stats").diameter - 1 = Len(Rec) THEN TRUE
            ELSE Print(<<"TRACE NOT CONSUMED", TLCGet("stats").diameter - 1, Len(Rec)>>, FALSE)
=============================================================================
