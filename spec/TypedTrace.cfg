SPECIFICATION Spec
INVARIANTS Inv_C05 Inv_C04 Inv_C11 Inv_TOOL
POSTCONDITION Accepted
CHECK_DEADLOCK FALSE
