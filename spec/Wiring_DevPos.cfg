SPECIFICATION Spec
CONSTANTS
  N = 3
  ByPosition = TRUE
INVARIANTS C05_OneToOne C05_FailBothEnds
CHECK_DEADLOCK FALSE
