-------------------------- MODULE ChmuxPeerTrace --------------------------
(***************************************************************************)
(* Trace specification for a real endpoint A talking to a scripted peer    *)
(* (C08, C09).  Frames sent by the peer are decoded with Wire!Dec and fed  *)
(* to ChmuxPeer!Handle, which yields the verdict the endpoint must reach;  *)
(* the recorded behaviour of the endpoint (frames it emits, result of its  *)
(* dispatcher, results of local calls) must agree with it.                 *)
(***************************************************************************)
EXTENDS Integers, Sequences, FiniteSets, TLC, Json, IOUtils

Rec == ndJsonDeserialize(IOEnv.TRACE)
W == INSTANCE Wire

VARIABLES l, cfgA, peerVersion, s, verdict, vline, phase, ended, okOps, openedByPeer, want, bad
vars == <<l, cfgA, peerVersion, s, verdict, vline, phase, ended, okOps, openedByPeer, want, bad>>

P == INSTANCE ChmuxPeer
CfgRec == [chunk |-> cfgA.chunk, rbuf |-> cfgA.rbuf, cq |-> cfgA.connect_q]
H(st, f) == P!Handle(CfgRec, st, f)
S0 == P!State0

Ev == Rec[l]
Has(f) == f \in DOMAIN Ev
Checked(p) == IOEnv.CHECK = "ALL" \/ p = IOEnv.CHECK \/ p = "TOOL"
Flag(p, why) == IF bad = <<>> /\ Checked(p) /\ PrintT("VIOLATION property=" \o p \o " line=" \o ToString(l) \o " reason=" \o why) THEN <<p, why, l>> ELSE bad
Is(e) == l <= Len(Rec) /\ Ev.ev = e /\ l' = l + 1

Init == /\ l = 1 /\ cfgA = [chunk |-> 4, rbuf |-> 4, connect_q |-> 1] /\ peerVersion = 3 /\ s = S0 /\ verdict = "run" /\ vline = 0
        /\ phase = "hs" /\ ended = "running" /\ okOps = 0 /\ openedByPeer = 0 /\ want = "" /\ bad = <<>>

Reset == /\ Is("reset")
         /\ cfgA' = Ev.cfg[1] /\ peerVersion' = Ev.cfg[2].version /\ s' = S0 /\ verdict' = "run" /\ vline' = 0 /\ phase' = "hs"
         /\ ended' = "running" /\ okOps' = 0 /\ openedByPeer' = 0 /\ want' = "" /\ bad' = bad

Handshake == /\ Is("handshake_done") /\ phase' = "run"
             /\ UNCHANGED <<cfgA, peerVersion, s, verdict, vline, ended, okOps, openedByPeer, bad, want>>

\* frame record for Handle from a decoded wire message
Frame(m, len) ==
    CASE m.k = "Data" -> [k |-> "Data", port |-> m.port, len |-> len]
      [] m.k = "PortCredits" -> [k |-> "PortCredits", port |-> m.port, credits |-> W!Val(m.credits)]
      [] OTHER -> m

\* the peer sends a frame
PeerSend ==
    /\ Is("peer_send")
    /\ IF phase = "hs" \/ verdict # "run" THEN UNCHANGED <<s, verdict, vline, openedByPeer, want, bad>>     \* handshake frames / after the end: not dispatched
       ELSE IF s.hdr # <<>> THEN
            LET r == H([s EXCEPT !.hdr = <<>>], Frame(s.hdr, Ev.len)) IN
            /\ s' = r.s /\ verdict' = r.v /\ vline' = l /\ UNCHANGED openedByPeer
            /\ want' = "" /\ bad' = IF want # "" /\ want # r.v THEN Flag("TOOL", "replayed behaviour: verdict differs from the generator's") ELSE bad
       ELSE LET m == W!Dec(Ev.b) IN
            IF m.k = "Data" THEN s' = [s EXCEPT !.hdr = m] /\ UNCHANGED <<verdict, vline, openedByPeer, want, bad>>
            ELSE LET r == H(s, Frame(m, 0)) IN
                 /\ s' = r.s /\ verdict' = r.v /\ vline' = l
                 /\ openedByPeer' = IF m.k = "PortOpened" /\ r.v = "run" THEN openedByPeer + 1 ELSE openedByPeer
                 /\ want' = "" /\ bad' = IF want # "" /\ want # r.v THEN Flag("TOOL", "replayed behaviour: verdict differs from the generator's") ELSE bad
    /\ UNCHANGED <<cfgA, peerVersion, phase, ended, okOps>>

Expect == /\ Is("expect") /\ want' = (IF verdict = "run" THEN Ev.v ELSE "")
          /\ UNCHANGED <<cfgA, peerVersion, s, verdict, vline, phase, ended, okOps, openedByPeer, bad>>

\* a frame emitted by the endpoint under test
EmitA ==
    /\ Is("wire_emit")
    /\ LET m == W!Dec(Ev.b)
           canon == m.k # "Bad" /\ W!Enc(m) = Ev.b
           idsOK == CASE m.k = "OpenPort" -> m.hasId = (peerVersion >= W!VersionPortId)
                      [] m.k = "PortData" -> m.hasIds = (peerVersion >= W!VersionPortId)
                      [] OTHER -> TRUE
           helloOK == m.k = "Hello" => /\ m.version = W!ProtocolVersion
                                       /\ m.chunk = W!U32(cfgA.chunk) /\ m.rbuf = W!U32(cfgA.rbuf)
                                       /\ m.cq = W!LE(cfgA.connect_q, 2) /\ m.timeout = W!LE(cfgA.timeout_ms, 8) IN
       /\ bad' = IF ~canon THEN Flag("C09", "emitted frame is not a canonical version-3 message")
                 ELSE IF ~idsOK THEN Flag("C09", "port ids sent (or omitted) contrary to the peer's announced version")
                 ELSE IF ~helloOK THEN Flag("C09", "Hello does not carry the endpoint's version and configuration")
                 ELSE bad
       /\ s' = IF m.k = "OpenPort" /\ phase = "run" THEN P!LocalConnect(s, m.client) ELSE s
    /\ UNCHANGED <<cfgA, peerVersion, verdict, vline, phase, ended, okOps, openedByPeer, want>>

RunEnd ==
    /\ Is("run_end") /\ ended' = Ev.res
    /\ LET wantRes == CASE verdict = "protocol" -> "protocol" [] verdict = "reset" -> "reset" [] verdict = "bye" -> "ok" [] OTHER -> "running" IN
       bad' = IF Ev.res = "panic" THEN Flag("C08", "dispatcher panicked on a frame from the peer")
              ELSE IF verdict = "run" THEN Flag("C08", "connection terminated although every received frame was acceptable")
              ELSE IF Ev.res # wantRes THEN Flag("C08", "dispatcher result does not match the reason for terminating")
              ELSE bad
    /\ UNCHANGED <<cfgA, peerVersion, s, verdict, vline, phase, okOps, openedByPeer, want>>

ApiDone ==
    /\ Is("api_done")
    /\ okOps' = IF Ev.res = "ok" THEN okOps + 1 ELSE okOps
    /\ bad' = IF Ev.res = "ok" /\ okOps + 1 > openedByPeer THEN Flag("C10", "connect succeeded without a PortOpened from the peer") ELSE bad
    /\ UNCHANGED <<cfgA, peerVersion, s, verdict, vline, phase, ended, openedByPeer, want>>

ApiPanic ==
    /\ Is("api_panic") /\ bad' = Flag("C08", "panic inside an API call")
    /\ UNCHANGED <<cfgA, peerVersion, s, verdict, vline, phase, ended, okOps, openedByPeer, want>>

PeerEnd ==
    /\ Is("peer_end")
    /\ bad' = IF verdict # "run" /\ Ev.running THEN Flag("C08", "endpoint kept operating after a frame that must terminate the connection")
              ELSE IF verdict = "run" /\ ~Ev.running /\ ended = "running" THEN Flag("TOOL", "endpoint gone without run_end")
              ELSE IF verdict # "run" /\ Ev.pending # <<>> THEN Flag("C08", "local call still pending after the connection was terminated")
              ELSE bad
    /\ UNCHANGED <<cfgA, peerVersion, s, verdict, vline, phase, ended, okOps, openedByPeer, want>>

NewFailed ==
    /\ Is("new_failed") /\ bad' = Flag("C09", "handshake with a well-formed Hello failed")
    /\ UNCHANGED <<cfgA, peerVersion, s, verdict, vline, phase, ended, okOps, openedByPeer, want>>

Known == {"expect", "reset", "handshake_done", "peer_send", "wire_emit", "run_end", "api_done", "api_panic", "peer_end", "new_failed"}
Skip == /\ l <= Len(Rec) /\ Ev.ev \notin Known /\ l' = l + 1
        /\ UNCHANGED <<cfgA, peerVersion, s, verdict, vline, phase, ended, okOps, openedByPeer, bad, want>>

Next == Expect \/ Reset \/ Handshake \/ PeerSend \/ EmitA \/ RunEnd \/ ApiDone \/ ApiPanic \/ PeerEnd \/ NewFailed \/ Skip
Spec == Init /\ [][Next]_vars

Ok(p) == bad = <<>> \/ bad[1] # p
Inv_TOOL == Ok("TOOL")
Inv_C08 == Ok("C08")
Inv_C09 == Ok("C09")
Inv_C10 == Ok("C10")
\* the verdict function never lets the endpoint hold more than its advertised buffer while it keeps running
Inv_Buffered == verdict = "run" => P!BufferedOK(CfgRec, s)
Accepted == IF TLCGet("stats").diameter - 1 = Len(Rec) THEN TRUE
            ELSE Print(<<"TRACE NOT CONSUMED", TLCGet("stats").diameter - 1, Len(Rec)>>, FALSE)
=============================================================================
