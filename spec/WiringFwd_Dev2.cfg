SPECIFICATION Spec
CONSTANTS
  N = 3
  F = 2
  IdFromPort = TRUE
INVARIANTS C05_ConnectedUnlessRejected C05_Partition
CHECK_DEADLOCK FALSE
