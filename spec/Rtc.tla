-------------------------------- MODULE Rtc --------------------------------
(***************************************************************************)
(* Remote trait calling (C12, C19): clients queue requests on one request  *)
(* channel (arrival order), the serve loop of the chosen server flavour    *)
(* dequeues them one at a time and dispatches them                         *)
(*   - "seq"      by-value / RefMut server: every request is executed      *)
(*                inside the serve loop (nothing else is dequeued then);   *)
(*   - "shared"   SharedMut server: a by-reference request takes the read  *)
(*                lock in the loop and is executed in its own task when    *)
(*                Spawn, a by-mutable-reference request takes the write    *)
(*                lock in the loop and is executed inside the loop.        *)
(* An execution is a read of the target state, a suspension point and a    *)
(* write (mutable methods) - atomicity is therefore observable.  A caller  *)
(* may abandon its call at any moment; the dispatcher races the execution  *)
(* of a cancellable method against the closure of the reply channel and    *)
(* drops it at a suspension point.  Methods in Hang never finish by        *)
(* themselves (their callers always abandon them).                         *)
(*                                                                         *)
(* Deviations (Dev) re-introduce the defects the properties exclude:       *)
(*   "norace"     cancellable executions are not raced against the reply   *)
(*                channel (an abandoned hanging call wedges the server)    *)
(*   "nolock"     mutable executions do not take the lock at all           *)
(*   "requeue"    a request is executed again when its reply was not       *)
(*                awaited (runs twice)                                     *)
(***************************************************************************)
EXTENDS Integers, Sequences, FiniteSets, TLC

CONSTANTS Calls,        \* call identifiers
          Kind,         \* Calls -> {"ref", "mut"}
          Cancellable,  \* Calls -> BOOLEAN   (FALSE: #[no_cancel])
          Hang,         \* subset of Calls whose body never finishes by itself
          Flavour,      \* "seq" | "shared"
          Spawn,        \* BOOLEAN (shared flavour: execute by-reference requests in their own task)
          QLen,         \* request channel capacity
          Dev           \* "none" | "norace" | "nolock" | "requeue"

VARIABLES cst,      \* caller state: "idle" | "queued" (request sent, awaiting reply) | "abandoned" | "done"
          out,      \* caller outcome: <<>> | <<"ok", v>> | <<"err">>
          queue,    \* request channel (sequence of calls)
          loop,     \* serve loop: "idle" | c (executing c in-line) | "ended"
          xst,      \* execution state: "none" | "read" (before the suspension point) | "susp" | "finished" | "abandoned" | "skipped"
          runs,     \* number of times the callee body was started for the call
          tmp,      \* value read by the execution at its start
          res,      \* result computed by the execution
          reply,    \* reply in flight: <<>> | <<v>>
          readers, writer,   \* lock on the target
          val,      \* target state
          alive     \* server / connection alive
vars == <<cst, out, queue, loop, xst, runs, tmp, res, reply, readers, writer, val, alive>>

None == 0        \* calls are positive integers
Add(c) == 1      \* every mutable call adds one: the final value counts the mutations applied

Init == /\ cst = [c \in Calls |-> "idle"] /\ out = [c \in Calls |-> <<>>] /\ queue = <<>> /\ loop = 0
        /\ xst = [c \in Calls |-> "none"] /\ runs = [c \in Calls |-> 0] /\ tmp = [c \in Calls |-> 0] /\ res = [c \in Calls |-> 0]
        /\ reply = [c \in Calls |-> <<>>] /\ readers = {} /\ writer = None /\ val = 0 /\ alive = TRUE

\* ---------------------------------------------------------------- callers
Send(c) == /\ cst[c] = "idle" /\ alive /\ Len(queue) < QLen
           /\ cst' = [cst EXCEPT ![c] = "queued"] /\ queue' = Append(queue, c)
           /\ UNCHANGED <<out, loop, xst, runs, tmp, res, reply, readers, writer, val, alive>>
\* the caller drops the call future (any moment after the request was queued)
Abandon(c) == /\ cst[c] = "queued"
              /\ cst' = [cst EXCEPT ![c] = "abandoned"]
              /\ UNCHANGED <<out, queue, loop, xst, runs, tmp, res, reply, readers, writer, val, alive>>
Return(c) == /\ cst[c] = "queued" /\ reply[c] # <<>>
             /\ cst' = [cst EXCEPT ![c] = "done"] /\ out' = [out EXCEPT ![c] = <<"ok", reply[c][1]>>]
             /\ UNCHANGED <<queue, loop, xst, runs, tmp, res, reply, readers, writer, val, alive>>
\* the reply channel failed: server gone, execution dropped, connection lost
Fail(c) == /\ cst[c] = "queued" /\ reply[c] = <<>>
           /\ \/ ~alive
              \/ xst[c] \in {"abandoned", "skipped"}
           /\ cst' = [cst EXCEPT ![c] = "done"] /\ out' = [out EXCEPT ![c] = <<"err">>]
           /\ UNCHANGED <<queue, loop, xst, runs, tmp, res, reply, readers, writer, val, alive>>

\* ---------------------------------------------------------------- serve loop
Gone(c) == cst[c] = "abandoned"      \* the reply channel is closed
InLine(c) == Flavour = "seq" \/ Kind[c] = "mut" \/ ~Spawn
LockFree(c) == IF Kind[c] = "mut" THEN readers = {} /\ writer = None ELSE writer = None
TakesLockInLoop(c) == Flavour = "shared" /\ ~(Dev = "nolock" /\ Kind[c] = "mut")

\* dequeue the next request, take the lock (shared flavour) and start its dispatcher
Dequeue == /\ loop = 0 /\ alive /\ queue # <<>>
           /\ LET c == Head(queue) IN
              /\ TakesLockInLoop(c) => LockFree(c)
              /\ queue' = Tail(queue)
              /\ IF Gone(c) /\ Cancellable[c] /\ Dev # "norace"
                 THEN \* the dispatcher sees the closed reply channel first: the body never starts
                      /\ xst' = [xst EXCEPT ![c] = "skipped"]
                      /\ UNCHANGED <<loop, runs, tmp, readers, writer>>
                 ELSE /\ xst' = [xst EXCEPT ![c] = "read"] /\ runs' = [runs EXCEPT ![c] = @ + 1]
                      /\ tmp' = [tmp EXCEPT ![c] = val]
                      /\ loop' = IF InLine(c) /\ ~(Dev = "nolock" /\ Kind[c] = "mut") THEN c ELSE 0
                      /\ IF TakesLockInLoop(c)
                         THEN IF Kind[c] = "mut" THEN writer' = c /\ readers' = readers ELSE readers' = readers \cup {c} /\ writer' = writer
                         ELSE UNCHANGED <<readers, writer>>
           /\ UNCHANGED <<cst, out, res, reply, val, alive>>

HoldsLock(c) == Flavour = "seq" \/ Dev = "nolock" \/ (IF Kind[c] = "mut" THEN writer = c ELSE c \in readers)

\* the execution reaches its suspension point
Suspend(c) == /\ xst[c] = "read" /\ HoldsLock(c)
              /\ xst' = [xst EXCEPT ![c] = "susp"]
              /\ UNCHANGED <<cst, out, queue, loop, runs, tmp, res, reply, readers, writer, val, alive>>
Release(c) == /\ loop' = IF loop = c THEN 0 ELSE loop
              /\ readers' = readers \ {c} /\ writer' = IF writer = c THEN None ELSE writer
\* the execution resumes, writes (mutable methods) and replies
Finish(c) == /\ xst[c] = "susp" /\ c \notin Hang
             /\ LET nv == IF Kind[c] = "mut" THEN tmp[c] + Add(c) ELSE val IN
                /\ val' = nv /\ res' = [res EXCEPT ![c] = nv]
                /\ reply' = [reply EXCEPT ![c] = IF Gone(c) THEN <<>> ELSE <<nv>>]
             /\ xst' = [xst EXCEPT ![c] = IF Dev = "requeue" /\ Gone(c) /\ runs[c] < 2 THEN "none" ELSE "finished"]
             /\ queue' = IF Dev = "requeue" /\ Gone(c) /\ runs[c] < 2 THEN Append(queue, c) ELSE queue
             /\ Release(c)
             /\ UNCHANGED <<cst, out, runs, tmp, alive>>
\* the dispatcher notices the closed reply channel while the execution is suspended and drops it
Drop(c) == /\ xst[c] \in {"read", "susp"} /\ Gone(c) /\ Cancellable[c] /\ Dev # "norace"
           /\ xst' = [xst EXCEPT ![c] = "abandoned"]
           /\ Release(c)
           /\ UNCHANGED <<cst, out, queue, runs, tmp, res, reply, val, alive>>
\* connection to the clients / server task lost
Die == /\ alive /\ alive' = FALSE
       /\ UNCHANGED <<cst, out, queue, loop, xst, runs, tmp, res, reply, readers, writer, val>>

Next == \/ \E c \in Calls : Send(c) \/ Abandon(c) \/ Return(c) \/ Fail(c) \/ Suspend(c) \/ Finish(c) \/ Drop(c)
        \/ Dequeue
Fairness == /\ WF_vars(Dequeue)
            /\ \A c \in Calls : WF_vars(Return(c)) /\ WF_vars(Fail(c)) /\ WF_vars(Suspend(c)) /\ WF_vars(Finish(c)) /\ WF_vars(Drop(c)) /\ WF_vars(Send(c))
            /\ \A c \in Hang : WF_vars(Abandon(c))       \* callers of hanging methods give up
Spec == Init /\ [][Next]_vars /\ Fairness
SpecFaulty == Init /\ [][Next \/ Die]_vars /\ Fairness

\* ---------------------------------------------------------------- properties
TypeOK == /\ \A c \in Calls : cst[c] \in {"idle", "queued", "abandoned", "done"}
          /\ \A c \in Calls : xst[c] \in {"none", "read", "susp", "finished", "abandoned", "skipped"}
\* C12: the callee body runs at most once per call
C12_AtMostOnce == \A c \in Calls : runs[c] <= 1
\* C12: a call that returns a result returns the result of its own, single, completed run
C12_OwnResult == \A c \in Calls : out[c] # <<>> /\ out[c][1] = "ok" => xst[c] = "finished" /\ runs[c] = 1 /\ out[c][2] = res[c]
\* C12: while a mutable method executes nothing else executes on the target
Executing == {c \in Calls : xst[c] \in {"read", "susp"}}
C12_MutAtomic == \A c \in Executing : Kind[c] = "mut" => Executing = {c}
\* C12: no mutation is lost: the state counts the completed mutable executions (sequential consistency of the
\* read-modify-write bodies); results are the state at the execution's end
Finished(k) == {c \in Calls : xst[c] = "finished" /\ Kind[c] = k}
C12_NoLostUpdate == Dev # "requeue" => val = Cardinality(Finished("mut"))
\* C19: liveness - every call that is not abandoned completes, the server keeps serving
C19_Completes == \A c \in Calls : (cst[c] = "queued") ~> (cst[c] \in {"done", "abandoned"})
C19_Served == \A c \in Calls : (cst[c] = "queued" /\ c \notin Hang) ~> (cst[c] = "abandoned" \/ xst[c] \in {"finished", "abandoned", "skipped"})
\* C19: a non-cancellable execution is never dropped
C19_NoCancelRuns == \A c \in Calls : ~Cancellable[c] => xst[c] \notin {"abandoned", "skipped"}
\* C19: locks are released when nothing executes
C19_LockReleased == (\A c \in Calls : xst[c] \notin {"read", "susp"}) => (readers = {} /\ writer = None /\ loop = 0)
=============================================================================
