SPECIFICATION Spec
INVARIANTS Inv_C15 Inv_TOOL
POSTCONDITION Accepted
CHECK_DEADLOCK FALSE
