//! chmux lifecycle workload (C07, C10, C11): concurrent connects / accepts / rejects / dropped requests from
//! both sides, cancelled connect and accept futures, small port limits and connect queues, data on the opened
//! ports, receiver close, sender / receiver / client / listener drops in any order, then full teardown.

use super::*;
use remoc::chmux::{ConnectError, ListenerError, Received, Receiver, Request, Sender};
use std::sync::Arc;
use tokio::sync::Mutex as AMutex;

#[derive(Clone, Debug)]
pub struct LifeOpts {
    pub connects: u64,
    pub cancel: bool,
    pub defer: u64,
    pub data: bool,
    pub max_ports: u64,
    /// 0: random drops during the run, 1: keep everything until the end (pure close/drop ordering scenario)
    pub calm: bool,
    /// Fault injection: kind ("" = none), direction (1 = A->B, 2 = B->A), frame number.
    pub fault_kind: &'static str,
    pub fault_dir: u64,
    pub fault_at: u64,
    /// Connection timeout of both endpoints in ms (0 = none).
    pub timeout_ms: u64,
    /// Drop listeners early and often (requests cross ListenerFinish).
    pub ldrop: bool,
    /// Toggle sink back-pressure on either direction during the active phase.
    pub bp: bool,
}

impl Default for LifeOpts {
    fn default() -> Self {
        LifeOpts { connects: 5, cancel: true, defer: 1, data: true, max_ports: 4, calm: false, fault_kind: "", fault_dir: 1, fault_at: 0, timeout_ms: 0, ldrop: false, bp: false }
    }
}

enum R {
    Conn(Result<(Sender, Receiver), &'static str>),
    Acc(Result<Option<(Sender, Receiver)>, &'static str>),
    Insp(Result<Option<Request>, &'static str>),
    Send(Result<(), &'static str>),
    Recv(RecvOut),
    Unit,
}

enum RecvOut {
    Data(Vec<u8>),
    Chunks,
    Requests(usize),
    None,
    Err(&'static str),
}

#[derive(Clone, Copy, PartialEq, Debug)]
enum K {
    Connect,
    Accept,
    Inspect,
    ReqAccept,
    ReqReject,
    Send,
    Recv,
    Close,
    Closed,
}

struct LOp {
    op: Op<R>,
    kind: K,
    ep: u64,
    /// index into ports for port operations
    pidx: usize,
}

struct PortObj {
    ep: u64,
    local: u32,
    tx: Option<Arc<AMutex<Sender>>>,
    rx: Option<Arc<AMutex<Receiver>>>,
    rx_done: bool,
    rx_closed: bool,
    sends: u64,
    tx_failed: bool,
    over: bool,
}

fn conn_err(e: &ConnectError) -> &'static str {
    match e {
        ConnectError::LocalPortsExhausted => "local_ports",
        ConnectError::RemotePortsExhausted => "remote_ports",
        ConnectError::TooManyPendingConnectionRequests => "too_many",
        ConnectError::Rejected => "rejected",
        ConnectError::ChMux => "chmux",
    }
}

fn lst_err(e: &ListenerError) -> &'static str {
    match e {
        ListenerError::LocalPortsExhausted => "local_ports",
        ListenerError::MultiplexerError => "chmux",
    }
}

/// Returns the number of frames emitted per direction.
pub async fn scenario(seed: u64, opts: &LifeOpts) -> (u64, u64) {
    let mut rng = Rng::new(seed ^ 0x11FE);
    let mut cfg_a = EpCfg::small(&mut rng);
    let mut cfg_b = EpCfg::small(&mut rng);
    cfg_a.max_ports = rng.range(2, opts.max_ports) as u32;
    cfg_b.max_ports = rng.range(2, opts.max_ports) as u32;
    // messages in this workload are short; keep buffers large enough that data never blocks for long
    cfg_a.rbuf = cfg_a.rbuf.max(8);
    cfg_b.rbuf = cfg_b.rbuf.max(8);
    cfg_a.timeout_ms = opts.timeout_ms;
    cfg_b.timeout_ms = opts.timeout_ms;
    tr(json!({"ev": "reset", "seed": seed, "wl": "life", "cfg": [cfg_a.json(), cfg_b.json()],
              "fault": {"kind": opts.fault_kind, "dir": opts.fault_dir, "at": opts.fault_at}}));
    install_spawn_policy(seed, opts.defer, 4);
    let mut conn = Conn::establish(&cfg_a, &cfg_b).await;
    if !opts.fault_kind.is_empty() {
        let l = if opts.fault_dir == 1 { &conn.ab } else { &conn.ba };
        let (k, at) = (opts.fault_kind, opts.fault_at);
        l.set(|st| st.fault_at = Some((at, k)));
    }
    let faulty = !opts.fault_kind.is_empty();
    let mut since_fault_ms = 0u64;

    let mut clients: [Option<remoc::chmux::Client>; 2] = [conn.client[0].take(), conn.client[1].take()];
    let mut listeners: [Option<Arc<AMutex<remoc::chmux::Listener>>>; 2] = [
        conn.listener[0].take().map(|l| Arc::new(AMutex::new(l))),
        conn.listener[1].take().map(|l| Arc::new(AMutex::new(l))),
    ];
    let allocs = [clients[0].as_ref().unwrap().port_allocator(), clients[1].as_ref().unwrap().port_allocator()];
    let mut held: Vec<(u64, Request)> = Vec::new();
    let mut ports: Vec<PortObj> = Vec::new();
    let mut ops: Vec<LOp> = Vec::new();
    let mut next_op = 1u64;
    let mut connects_left = opts.connects;
    let mut msg_id = 1u64;
    let mut steps = 0u64;
    let mut idle = 0u64;
    let mut phase = 0; // 0 = active, 1 = drain
    let mut lst_closed = [false, false];

    macro_rules! add_port {
        ($ep:expr, $tx:expr, $rx:expr) => {{
            let (tx, rx): (Sender, Receiver) = ($tx, $rx);
            ports.push(PortObj {
                ep: $ep,
                local: tx.local_port(),
                tx: Some(Arc::new(AMutex::new(tx))),
                rx: Some(Arc::new(AMutex::new(rx))),
                rx_done: false,
                rx_closed: false,
                sends: 0,
                tx_failed: false,
                over: false,
            });
        }};
    }

    loop {
        steps += 1;
        if steps > 30_000 || trace_len() > 6000 {
            tr(json!({"ev": "livelock", "steps": steps}));
            for h in conn.run.iter_mut().flatten() {
                h.abort();
            }
            return (conn.ab.emitted(), conn.ba.emitted());
        }
        let faulted = conn.ab.0.lock().unwrap().faulted || conn.ba.0.lock().unwrap().faulted;
        if phase == 0 && faulted {
            phase = 1;
        }
        if phase == 0 && steps > 400 && (connects_left == 0 || steps > 1200 || clients.iter().all(|c| c.is_none())) {
            phase = 1;
        }
        let mut acted = false;
        let ep = rng.range(1, 2);
        let e = (ep - 1) as usize;
        let choice = if phase == 0 { rng.below(if opts.bp { 18 } else { 16 }) } else { 2 + rng.below(14) };
        if phase == 1 {
            for l in [&conn.ab, &conn.ba] {
                if l.0.lock().unwrap().blocked {
                    l.set(|st| st.blocked = false);
                }
            }
        }
        match choice {
            // ---- client connect
            0 | 1 if connects_left > 0 && clients[e].is_some() => {
                connects_left -= 1;
                let id = next_op;
                next_op += 1;
                let client = clients[e].clone().unwrap();
                let wait = rng.chance(2, 3);
                tr(json!({"ev": "api_start", "op": id, "ep": ep, "kind": "client_connect", "wait": wait}));
                ops.push(LOp {
                    op: Op::new(id, ep, async move {
                        let r = match client.connect_ext(None, wait).await {
                            Ok(c) => c.await,
                            Err(e) => Err(e),
                        };
                        R::Conn(r.map_err(|e| conn_err(&e)))
                    }),
                    kind: K::Connect,
                    ep,
                    pidx: 0,
                });
                acted = true;
            }
            // ---- listener accept / inspect
            2 | 3 if listeners[e].is_some() && !lst_closed[e] && !ops.iter().any(|o| o.ep == ep && matches!(o.kind, K::Accept | K::Inspect)) => {
                let id = next_op;
                next_op += 1;
                let l = listeners[e].clone().unwrap();
                if rng.chance(1, 2) {
                    tr(json!({"ev": "api_start", "op": id, "ep": ep, "kind": "accept"}));
                    ops.push(LOp {
                        op: Op::new(id, ep, async move {
                            let mut g = l.lock_owned().await;
                            R::Acc(g.accept().await.map_err(|e| lst_err(&e)))
                        }),
                        kind: K::Accept,
                        ep,
                        pidx: 0,
                    });
                } else {
                    tr(json!({"ev": "api_start", "op": id, "ep": ep, "kind": "inspect"}));
                    ops.push(LOp {
                        op: Op::new(id, ep, async move {
                            let mut g = l.lock_owned().await;
                            R::Insp(g.inspect().await.map_err(|e| lst_err(&e)))
                        }),
                        kind: K::Inspect,
                        ep,
                        pidx: 0,
                    });
                }
                acted = true;
            }
            // ---- poll a runnable operation
            4..=7 => {
                let runnable: Vec<usize> = ops.iter().enumerate().filter(|(_, o)| o.op.runnable()).map(|(i, _)| i).collect();
                if !runnable.is_empty() {
                    let i = *rng.pick(&runnable);
                    let id = ops[i].op.id;
                    let oep = ops[i].ep;
                    match ops[i].op.poll() {
                        Polled::Pending => {}
                        Polled::Panicked => {
                            tr(json!({"ev": "api_panic", "op": id}));
                            ops.swap_remove(i);
                        }
                        Polled::Ready(r) => {
                            let lop = ops.swap_remove(i);
                            match r {
                                R::Conn(Ok((tx, rx))) => {
                                    tr(json!({"ev": "api_done", "op": id, "res": "ok", "local": p32(tx.local_port()), "remote": p32(tx.remote_port())}));
                                    add_port!(oep, tx, rx);
                                }
                                R::Conn(Err(e)) => tr(json!({"ev": "api_done", "op": id, "res": "err", "err": e})),
                                R::Acc(Ok(Some((tx, rx)))) => {
                                    tr(json!({"ev": "api_done", "op": id, "res": "ok", "local": p32(tx.local_port()), "remote": p32(tx.remote_port())}));
                                    add_port!(oep, tx, rx);
                                }
                                R::Acc(Ok(None)) => {
                                    lst_closed[(oep - 1) as usize] = true;
                                    tr(json!({"ev": "api_done", "op": id, "res": "none"}))
                                }
                                R::Acc(Err(e)) => {
                                    if matches!(lop.kind, K::Accept) {
                                        lst_closed[(oep - 1) as usize] = true;
                                    }
                                    tr(json!({"ev": "api_done", "op": id, "res": "err", "err": e}))
                                }
                                R::Insp(Ok(Some(req))) => {
                                    tr(json!({"ev": "api_done", "op": id, "res": "req", "rport": p32(req.remote_port()), "wait": req.is_wait()}));
                                    held.push((oep, req));
                                }
                                R::Insp(Ok(None)) => {
                                    lst_closed[(oep - 1) as usize] = true;
                                    tr(json!({"ev": "api_done", "op": id, "res": "none"}))
                                }
                                R::Insp(Err(e)) => {
                                    lst_closed[(oep - 1) as usize] = true;
                                    tr(json!({"ev": "api_done", "op": id, "res": "err", "err": e}))
                                }
                                R::Send(Ok(())) => tr(json!({"ev": "api_done", "op": id, "res": "ok"})),
                                R::Send(Err(e)) => {
                                    ports[lop.pidx].tx_failed = true;
                                    tr(json!({"ev": "api_done", "op": id, "res": "err", "err": e}))
                                }
                                R::Recv(out) => match out {
                                    RecvOut::Data(v) => tr(json!({"ev": "api_done", "op": id, "res": "data", "data": bytes_json(&v)})),
                                    RecvOut::Chunks => {
                                        ports[lop.pidx].rx_done = true;
                                        tr(json!({"ev": "api_done", "op": id, "res": "chunks"}))
                                    }
                                    RecvOut::Requests(n) => tr(json!({"ev": "api_done", "op": id, "res": "requests", "n": n})),
                                    RecvOut::None => {
                                        ports[lop.pidx].rx_done = true;
                                        tr(json!({"ev": "api_done", "op": id, "res": "none"}))
                                    }
                                    RecvOut::Err(e) => {
                                        ports[lop.pidx].rx_done = true;
                                        tr(json!({"ev": "api_done", "op": id, "res": "err", "err": e}))
                                    }
                                },
                                R::Unit => tr(json!({"ev": "api_done", "op": id, "res": "ok"})),
                            }
                        }
                    }
                    acted = true;
                }
            }
            // ---- cancel a connect / accept / inspect future
            8 if opts.cancel && phase == 0 && rng.chance(1, 3) => {
                let cands: Vec<usize> = ops
                    .iter()
                    .enumerate()
                    .filter(|(_, o)| matches!(o.kind, K::Connect | K::Accept | K::Inspect | K::ReqAccept) && o.op.polls > 0)
                    .map(|(i, _)| i)
                    .collect();
                if !cands.is_empty() {
                    let i = *rng.pick(&cands);
                    let lop = ops.swap_remove(i);
                    tr(json!({"ev": "api_cancel", "op": lop.op.id, "polls": lop.op.polls}));
                    with_label(lop.ep, || drop(lop));
                    acted = true;
                }
            }
            // ---- decide a held request
            9 if !held.is_empty() => {
                let i = rng.below(held.len() as u64) as usize;
                let (rep, req) = held.swap_remove(i);
                let id = next_op;
                next_op += 1;
                let rport = p32(req.remote_port());
                match rng.below(4) {
                    0 | 1 => {
                        tr(json!({"ev": "api_start", "op": id, "ep": rep, "kind": "req_accept", "rport": rport}));
                        ops.push(LOp {
                            op: Op::new(id, rep, async move { R::Acc(req.accept().await.map(Some).map_err(|e| lst_err(&e))) }),
                            kind: K::ReqAccept,
                            ep: rep,
                            pidx: 0,
                        });
                    }
                    2 => {
                        let no_ports = rng.chance(1, 3);
                        tr(json!({"ev": "api_start", "op": id, "ep": rep, "kind": "req_reject", "rport": rport, "no_ports": no_ports}));
                        ops.push(LOp {
                            op: Op::new(id, rep, async move {
                                req.reject(no_ports).await;
                                R::Unit
                            }),
                            kind: K::ReqReject,
                            ep: rep,
                            pidx: 0,
                        });
                    }
                    _ => {
                        tr(json!({"ev": "req_drop", "ep": rep, "rport": rport}));
                        with_label(rep, || drop(req));
                    }
                }
                acted = true;
            }
            // ---- port operations
            10 | 11 if opts.data && !ports.is_empty() => {
                let pi = rng.below(ports.len() as u64) as usize;
                let busy_send = ops.iter().any(|o| o.pidx == pi && matches!(o.kind, K::Send));
                let busy_recv = ops.iter().any(|o| o.pidx == pi && matches!(o.kind, K::Recv | K::Close));
                let p = &mut ports[pi];
                let id = next_op;
                if rng.chance(1, 2) {
                    if let (Some(tx), false, false) = (p.tx.clone(), busy_send, p.tx_failed) {
                        if p.sends < 4 && phase == 0 {
                            next_op += 1;
                            p.sends += 1;
                            if p.sends == 1 && rng.chance(1, 3) {
                                // keep sending to a gracefully closed receiver (as chmux::forward does)
                                if let Ok(mut g) = tx.try_lock() {
                                    g.set_override_graceful_close(true);
                                    p.over = true;
                                }
                            }
                            let len = rng.range(0, 6) as usize;
                            let data: Vec<u8> = (0..len).map(|i| ((msg_id * 37 + i as u64 * 11 + 1) % 251) as u8).collect();
                            msg_id += 1;
                            let len = if p.over { rng.range(3, 14) as usize } else { len };
                            let data: Vec<u8> = if p.over { (0..len).map(|i| ((msg_id * 37 + i as u64 * 11 + 1) % 251) as u8).collect() } else { data };
                            tr(json!({"ev": "api_start", "op": id, "ep": p.ep, "kind": "send", "port": p32(p.local), "data": bytes_json(&data), "override": p.over}));
                            ops.push(LOp {
                                op: Op::new(id, p.ep, async move {
                                    let mut g = tx.lock_owned().await;
                                    R::Send(g.send(Bytes::from(data)).await.map_err(|e| send_err_class(&e)))
                                }),
                                kind: K::Send,
                                ep: p.ep,
                                pidx: pi,
                            });
                            acted = true;
                        }
                    }
                } else if let (Some(rx), false, false) = (p.rx.clone(), busy_recv, p.rx_done) {
                    next_op += 1;
                    tr(json!({"ev": "api_start", "op": id, "ep": p.ep, "kind": "recv_any", "port": p32(p.local)}));
                    ops.push(LOp {
                        op: Op::new(id, p.ep, async move {
                            let mut g = rx.lock_owned().await;
                            R::Recv(match g.recv_any().await {
                                Ok(Some(Received::Data(buf))) => RecvOut::Data(Vec::<u8>::from(buf)),
                                Ok(Some(Received::Chunks)) => RecvOut::Chunks,
                                Ok(Some(Received::Requests(r))) => RecvOut::Requests(r.len()),
                                Ok(None) => RecvOut::None,
                                Err(remoc::chmux::RecvError::ChMux) => RecvOut::Err("chmux"),
                                Err(_) => RecvOut::Err("other"),
                            })
                        }),
                        kind: K::Recv,
                        ep: p.ep,
                        pidx: pi,
                    });
                    acted = true;
                }
            }
            // ---- close a receiver / watch closed()
            12 if opts.data && !ports.is_empty() && phase == 0 => {
                let pi = rng.below(ports.len() as u64) as usize;
                let busy_recv = ops.iter().any(|o| o.pidx == pi && matches!(o.kind, K::Recv | K::Close));
                let p = &mut ports[pi];
                let id = next_op;
                if rng.chance(1, 2) {
                    if let (Some(rx), false, false) = (p.rx.clone(), busy_recv, p.rx_closed) {
                        next_op += 1;
                        p.rx_closed = true;
                        tr(json!({"ev": "api_start", "op": id, "ep": p.ep, "kind": "close", "port": p32(p.local)}));
                        ops.push(LOp {
                            op: Op::new(id, p.ep, async move {
                                let mut g = rx.lock_owned().await;
                                g.close().await;
                                R::Unit
                            }),
                            kind: K::Close,
                            ep: p.ep,
                            pidx: pi,
                        });
                        acted = true;
                    }
                } else if let Some(tx) = p.tx.clone() {
                    if !ops.iter().any(|o| o.pidx == pi && matches!(o.kind, K::Closed | K::Send)) {
                        next_op += 1;
                        let fut = tx.try_lock().map(|g| g.closed()).ok();
                        if let Some(fut) = fut {
                            tr(json!({"ev": "api_start", "op": id, "ep": p.ep, "kind": "closed", "port": p32(p.local)}));
                            ops.push(LOp {
                                op: Op::new(id, p.ep, async move {
                                    fut.await;
                                    R::Unit
                                }),
                                kind: K::Closed,
                                ep: p.ep,
                                pidx: pi,
                            });
                            acted = true;
                        }
                    }
                }
            }
            // ---- drop a sender or a receiver
            13 if !opts.calm && !ports.is_empty() && rng.chance(1, 3) => {
                let pi = rng.below(ports.len() as u64) as usize;
                let p = &mut ports[pi];
                if rng.chance(1, 2) {
                    if p.tx.is_some() && !ops.iter().any(|o| o.pidx == pi && matches!(o.kind, K::Send | K::Closed)) {
                        tr(json!({"ev": "drop", "ep": p.ep, "what": "sender", "port": p32(p.local)}));
                        let tx = p.tx.take();
                        with_label(p.ep, || drop(tx));
                        acted = true;
                    }
                } else if p.rx.is_some() && !ops.iter().any(|o| o.pidx == pi && matches!(o.kind, K::Recv | K::Close)) {
                    tr(json!({"ev": "drop", "ep": p.ep, "what": "receiver", "port": p32(p.local)}));
                    let rx = p.rx.take();
                    with_label(p.ep, || drop(rx));
                    acted = true;
                }
            }
            // ---- drop the client or the listener of an endpoint
            14 if !opts.calm && phase == 0 && rng.chance(1, if opts.ldrop { 3 } else { 12 }) => {
                if !opts.ldrop && rng.chance(1, 2) {
                    if clients[e].take().is_some() {
                        tr(json!({"ev": "drop", "ep": ep, "what": "client"}));
                        acted = true;
                    }
                } else if listeners[e].is_some() && !ops.iter().any(|o| o.ep == ep && matches!(o.kind, K::Accept | K::Inspect)) {
                    listeners[e] = None;
                    tr(json!({"ev": "drop", "ep": ep, "what": "listener"}));
                    acted = true;
                }
            }
            16 | 17 if phase == 0 && rng.chance(1, 3) => {
                let l = if choice == 16 { &conn.ab } else { &conn.ba };
                let now = l.0.lock().unwrap().blocked;
                l.set(|st| st.blocked = !now);
                tr(json!({"ev": "backpressure", "dir": l.1, "on": !now}));
                acted = true;
            }
            _ => {
                // deliver a frame
                let l = if rng.chance(1, 2) { &conn.ab } else { &conn.ba };
                if l.pending() > 0 {
                    l.deliver();
                    acted = true;
                }
            }
        }
        settle().await;
        if acted {
            idle = 0;
        } else {
            idle += 1;
        }
        if phase == 1 && opts.timeout_ms > 0 && idle >= 20 && idle % 20 == 0 && faulted && since_fault_ms < 3 * opts.timeout_ms {
            // nothing moves: let virtual time pass so that the timeout / ping logic can observe a silent fault
            let step = opts.timeout_ms / 4;
            tr(json!({"ev": "advance", "ms": step}));
            tokio::time::advance(std::time::Duration::from_millis(step)).await;
            since_fault_ms += step;
            for _ in 0..3 {
                settle().await;
            }
        }
        if phase == 1 && idle >= 80 {
            let quiet = conn.ab.pending() == 0
                && conn.ba.pending() == 0
                && ops.iter().all(|o| !o.op.runnable())
                && (!faulted || opts.timeout_ms == 0 || since_fault_ms >= 3 * opts.timeout_ms);
            if quiet {
                break;
            }
            idle = 0;
        }
    }
    let pending: Vec<u64> = ops.iter().map(|o| o.op.id).collect();
    let is_faulted = |c: &Conn| c.ab.0.lock().unwrap().faulted || c.ba.0.lock().unwrap().faulted;
    let free: Vec<bool> = allocs.iter().map(|a| a.try_allocate().is_some()).collect();
    let held_n: Vec<usize> = (1..=2u64).map(|e| held.iter().filter(|(ep, _)| *ep == e).count()).collect();
    tr(json!({"ev": "quiescent", "pending": pending, "settled": is_faulted(&conn) && since_fault_ms >= 3 * opts.timeout_ms,
              "free_ports": free, "held": held_n}));

    if faulty {
        // operations issued after the failure must complete (with an error) as well
        conn.reap().await;
        let mut late: Vec<LOp> = Vec::new();
        for (pi, p) in ports.iter().enumerate() {
            if let Some(tx) = p.tx.clone() {
                // a sender that an earlier, still pending operation is using (those are not polled any more) is skipped:
                // a late send would only wait for the harness-side lock of that sender
                let Ok(mut g) = tx.try_lock_owned() else { continue };
                let id = next_op;
                next_op += 1;
                tr(json!({"ev": "api_start", "op": id, "ep": p.ep, "kind": "send", "port": p32(p.local), "data": [1, 2, 3], "late": true}));
                late.push(LOp {
                    op: Op::new(id, p.ep, async move {
                        R::Send(g.send(Bytes::from_static(&[1, 2, 3])).await.map_err(|e| send_err_class(&e)))
                    }),
                    kind: K::Send,
                    ep: p.ep,
                    pidx: pi,
                });
            }
        }
        for e in 0..2 {
            if let Some(client) = clients[e].clone() {
                let id = next_op;
                next_op += 1;
                tr(json!({"ev": "api_start", "op": id, "ep": e + 1, "kind": "client_connect", "wait": true, "late": true}));
                late.push(LOp {
                    op: Op::new(id, e as u64 + 1, async move { R::Conn(client.connect().await.map_err(|e| conn_err(&e))) }),
                    kind: K::Connect,
                    ep: e as u64 + 1,
                    pidx: 0,
                });
            }
            if let Some(l) = listeners[e].clone() {
                if let Ok(g) = l.try_lock_owned() {
                    let id = next_op;
                    next_op += 1;
                    tr(json!({"ev": "api_start", "op": id, "ep": e + 1, "kind": "accept", "late": true}));
                    let mut g = g;
                    late.push(LOp {
                        op: Op::new(id, e as u64 + 1, async move { R::Acc(g.accept().await.map_err(|e| lst_err(&e))) }),
                        kind: K::Accept,
                        ep: e as u64 + 1,
                        pidx: 0,
                    });
                }
            }
        }
        for round in 0..600 {
            if round % 20 == 19 && is_faulted(&conn) && since_fault_ms < 3 * opts.timeout_ms {
                let step = opts.timeout_ms / 4;
                tr(json!({"ev": "advance", "ms": step}));
                tokio::time::advance(std::time::Duration::from_millis(step)).await;
                since_fault_ms += step;
                for _ in 0..3 {
                    settle().await;
                }
            }
            let mut i = 0;
            while i < late.len() {
                if late[i].op.runnable() {
                    let id = late[i].op.id;
                    match late[i].op.poll() {
                        Polled::Pending => i += 1,
                        Polled::Panicked => {
                            tr(json!({"ev": "api_panic", "op": id}));
                            late.swap_remove(i);
                        }
                        Polled::Ready(r) => {
                            late.swap_remove(i);
                            match r {
                                R::Conn(Ok(_)) | R::Acc(Ok(Some(_))) | R::Send(Ok(())) => tr(json!({"ev": "api_done", "op": id, "res": "ok", "late": true})),
                                R::Conn(Err(e)) | R::Acc(Err(e)) | R::Send(Err(e)) => tr(json!({"ev": "api_done", "op": id, "res": "err", "err": e})),
                                _ => tr(json!({"ev": "api_done", "op": id, "res": "none"})),
                            }
                        }
                    }
                } else {
                    i += 1;
                }
            }
            settle().await;
            conn.ab.deliver();
            conn.ba.deliver();
            if late.is_empty() {
                break;
            }
        }
        let pending: Vec<u64> = late.iter().map(|o| o.op.id).collect();
        tr(json!({"ev": "quiescent", "pending": pending, "late": true, "settled": is_faulted(&conn) && since_fault_ms >= 3 * opts.timeout_ms}));
        for lop in late.drain(..) {
            tr(json!({"ev": "api_cancel", "op": lop.op.id, "polls": lop.op.polls}));
            with_label(lop.ep, || drop(lop));
        }
    }

    // ---- teardown: drop everything in a random order; both dispatchers must finish successfully
    for lop in ops.drain(..) {
        tr(json!({"ev": "api_cancel", "op": lop.op.id, "polls": lop.op.polls}));
        with_label(lop.ep, || drop(lop));
    }
    let mut todo: Vec<u64> = (0..(ports.len() as u64 * 2 + 4 + held.len() as u64)).collect();
    while !todo.is_empty() {
        let i = rng.below(todo.len() as u64) as usize;
        let t = todo.swap_remove(i) as usize;
        if t < ports.len() * 2 {
            let p = &mut ports[t / 2];
            if t % 2 == 0 {
                if let Some(tx) = p.tx.take() {
                    tr(json!({"ev": "drop", "ep": p.ep, "what": "sender", "port": p32(p.local)}));
                    with_label(p.ep, || drop(tx));
                }
            } else if let Some(rx) = p.rx.take() {
                tr(json!({"ev": "drop", "ep": p.ep, "what": "receiver", "port": p32(p.local)}));
                with_label(p.ep, || drop(rx));
            }
        } else if t < ports.len() * 2 + 4 {
            let j = t - ports.len() * 2;
            let e = j % 2;
            if j < 2 {
                if clients[e].take().is_some() {
                    tr(json!({"ev": "drop", "ep": e + 1, "what": "client"}));
                }
            } else if listeners[e].take().is_some() {
                tr(json!({"ev": "drop", "ep": e + 1, "what": "listener"}));
            }
        } else if let Some((rep, req)) = held.pop() {
            tr(json!({"ev": "req_drop", "ep": rep, "rport": p32(req.remote_port())}));
            with_label(rep, || drop(req));
        }
        if rng.chance(1, 2) {
            settle().await;
            if rng.chance(1, 2) {
                conn.ab.deliver();
            }
            if rng.chance(1, 2) {
                conn.ba.deliver();
            }
        }
    }
    tr(json!({"ev": "all_dropped"}));
    conn.timeout_ms = opts.timeout_ms;
    conn.teardown().await;
    // reclamation: every port number is free again, no background task is left
    for (i, a) in allocs.iter().enumerate() {
        let max = if i == 0 { cfg_a.max_ports } else { cfg_b.max_ports };
        let mut got = Vec::new();
        while let Some(p) = a.try_allocate() {
            got.push(p);
            if got.len() as u32 > max {
                break;
            }
        }
        tr(json!({"ev": "alloc_check", "ep": i + 1, "got": got.len(), "max": max}));
    }
    for _ in 0..20 {
        settle().await;
    }
    let alive = tokio::runtime::Handle::current().metrics().num_alive_tasks();
    tr(json!({"ev": "tasks", "alive": alive}));
    (conn.ab.emitted(), conn.ba.emitted())
}
