//! Small chmux workloads: idle connection under a timeout (C06), faults inside the handshake (C06).

use super::*;
use remoc::chmux::ChMux;

/// A healthy connection that stays idle for `periods` x timeout of virtual time must not be torn down.
pub async fn idle(seed: u64, periods: u64) {
    let mut rng = Rng::new(seed ^ 0x1D1E);
    let mut cfg_a = EpCfg::small(&mut rng);
    let mut cfg_b = EpCfg::small(&mut rng);
    cfg_a.timeout_ms = rng.range(40, 400);
    cfg_b.timeout_ms = rng.range(40, 400);
    tr(json!({"ev": "reset", "seed": seed, "wl": "idle", "cfg": [cfg_a.json(), cfg_b.json()]}));
    install_spawn_policy(seed, 1, 4);
    let mut conn = Conn::establish(&cfg_a, &cfg_b).await;
    let tmin = cfg_a.timeout_ms.min(cfg_b.timeout_ms);
    let total = periods * cfg_a.timeout_ms.max(cfg_b.timeout_ms);
    let mut elapsed = 0u64;
    let mut skipped = false;
    while elapsed < total {
        // healthy transport: every frame is delivered with a latency of at most a quarter of the smaller timeout
        let step = rng.range(1, tmin / 8);
        tokio::time::advance(Duration::from_millis(step)).await;
        elapsed += step;
        settle().await;
        if skipped || rng.chance(2, 3) {
            conn.flush().await;
            skipped = false;
        } else {
            skipped = true;
        }
        if conn.run.iter().flatten().any(|h| h.is_finished()) {
            break;
        }
    }
    tr(json!({"ev": "advance", "ms": elapsed}));
    conn.flush().await;
    conn.reap().await;
    tr(json!({"ev": "quiescent", "pending": [], "idle_ms": elapsed}));
    tr(json!({"ev": "all_dropped"}));
    conn.timeout_ms = cfg_a.timeout_ms.max(cfg_b.timeout_ms);
    conn.teardown().await;
}

/// Fault while the two endpoints exchange Hello: both `ChMux::new` calls must complete (with an error for the
/// side that can observe the fault) within the connection timeout.
pub async fn hs_fault(seed: u64, kind: &'static str, dir: u64, at: u64) {
    let mut rng = Rng::new(seed ^ 0x4511);
    let mut cfg_a = EpCfg::small(&mut rng);
    let mut cfg_b = EpCfg::small(&mut rng);
    cfg_a.timeout_ms = 1000;
    cfg_b.timeout_ms = 1000;
    tr(json!({"ev": "reset", "seed": seed, "wl": "hs_fault", "cfg": [cfg_a.json(), cfg_b.json()], "fault": {"kind": kind, "dir": dir, "at": at}}));
    install_spawn_policy(seed, 1, 4);
    let (ab, ba) = link_pair();
    (if dir == 1 { &ab } else { &ba }).set(|st| st.fault_at = Some((at, kind)));
    let (a_sink, b_stream) = ab.halves();
    let (b_sink, a_stream) = ba.halves();
    let (ca, cb) = (cfg_a.to_cfg(), cfg_b.to_cfg());
    tr(json!({"ev": "api_start", "op": 1, "ep": 1, "kind": "mux_new"}));
    tr(json!({"ev": "api_start", "op": 2, "ep": 2, "kind": "mux_new"}));
    let mut ops = vec![
        Some(Op::new(1, 1, async move { ChMux::new(ca, a_sink, a_stream).await.map(|_| ()).map_err(|e| mux_err_class(&Err(e))) })),
        Some(Op::new(2, 2, async move { ChMux::new(cb, b_sink, b_stream).await.map(|_| ()).map_err(|e| mux_err_class(&Err(e))) })),
    ];
    let mut waited = 0u64;
    for round in 0..2000u64 {
        for o in ops.iter_mut() {
            if let Some(op) = o {
                if op.runnable() && rng.chance(2, 3) {
                    let id = op.id;
                    match op.poll() {
                        Polled::Ready(Ok(())) => {
                            tr(json!({"ev": "api_done", "op": id, "res": "ok"}));
                            *o = None;
                        }
                        Polled::Ready(Err(e)) => {
                            tr(json!({"ev": "api_done", "op": id, "res": "err", "err": e}));
                            *o = None;
                        }
                        Polled::Pending => {}
                        Polled::Panicked => {
                            tr(json!({"ev": "api_panic", "op": id}));
                            *o = None;
                        }
                    }
                }
            }
        }
        if rng.chance(1, 2) {
            ab.deliver();
        }
        if rng.chance(1, 2) {
            ba.deliver();
        }
        settle().await;
        if ops.iter().all(|o| o.is_none()) {
            break;
        }
        if round % 25 == 24 && waited < 3000 {
            tr(json!({"ev": "advance", "ms": 250}));
            tokio::time::advance(Duration::from_millis(250)).await;
            waited += 250;
        }
    }
    let pending: Vec<u64> = ops.iter().flatten().map(|o| o.id).collect();
    let faulted = ab.0.lock().unwrap().faulted || ba.0.lock().unwrap().faulted;
    tr(json!({"ev": "quiescent", "pending": pending, "settled": faulted && waited >= 3000}));
    for o in ops.into_iter().flatten() {
        tr(json!({"ev": "api_cancel", "op": o.id, "polls": o.polls}));
    }
}

/// Directed scenario (C10): the accepting endpoint's transport is stalled so that its dispatcher queues fill up;
/// requests are then accepted / rejected and the call that blocks on the full queue is cancelled. After the
/// transport resumes every connect of the requesting endpoint must still resolve.
pub async fn acc_cancel(seed: u64) {
    use remoc::chmux::Request;
    let mut rng = Rng::new(seed ^ 0xACCA);
    let mut cfg_a = EpCfg::small(&mut rng);
    let mut cfg_b = EpCfg::small(&mut rng);
    cfg_b.connect_q = 3;
    cfg_a.connect_q = 3;
    cfg_a.max_ports = 8;
    cfg_b.max_ports = 8;
    tr(json!({"ev": "reset", "seed": seed, "wl": "acc_cancel", "cfg": [cfg_a.json(), cfg_b.json()]}));
    install_spawn_policy(seed, 1, 4);
    let mut conn = Conn::establish(&cfg_a, &cfg_b).await;
    let client = conn.client[0].clone().unwrap();
    let mut listener = conn.listener[1].take().unwrap();
    let alloc_b = listener.port_allocator();
    let alloc_a = client.port_allocator();
    let mut next_op = 1u64;
    type CRes = Result<(remoc::chmux::Sender, remoc::chmux::Receiver), &'static str>;
    let mut connects: Vec<Op<CRes>> = Vec::new();
    let n = rng.range(2, 3);
    for _ in 0..n {
        let id = next_op;
        next_op += 1;
        let c = client.clone();
        let wait = rng.chance(1, 2);
        tr(json!({"ev": "api_start", "op": id, "ep": 1, "kind": "client_connect", "wait": wait}));
        connects.push(Op::new(id, 1, async move {
            match c.connect_ext(None, wait).await {
                Ok(conn) => conn.await.map_err(|_| "err"),
                Err(_) => Err("err"),
            }
        }));
    }
    let mut kept = Vec::new();
    let poll_connects = |connects: &mut Vec<Op<CRes>>, kept: &mut Vec<(remoc::chmux::Sender, remoc::chmux::Receiver)>| {
        let mut i = 0;
        while i < connects.len() {
            if connects[i].runnable() {
                let id = connects[i].id;
                match connects[i].poll() {
                    Polled::Ready(Ok((tx, rx))) => {
                        tr(json!({"ev": "api_done", "op": id, "res": "ok", "local": p32(tx.local_port()), "remote": p32(tx.remote_port())}));
                        kept.push((tx, rx));
                        connects.swap_remove(i);
                    }
                    Polled::Ready(Err(_)) => {
                        tr(json!({"ev": "api_done", "op": id, "res": "err", "err": "other"}));
                        connects.swap_remove(i);
                    }
                    _ => i += 1,
                }
            } else {
                i += 1;
            }
        }
    };
    for _ in 0..6 {
        poll_connects(&mut connects, &mut kept);
        conn.flush().await;
    }
    // B takes the requests out of its listener
    let mut held: Vec<Request> = Vec::new();
    for _ in 0..n {
        let id = next_op;
        next_op += 1;
        tr(json!({"ev": "api_start", "op": id, "ep": 2, "kind": "inspect"}));
        // inspect() with everything already queued completes without waiting
        let got = {
            let fut = listener.inspect();
            tokio::pin!(fut);
            let mut got = None;
            for _ in 0..20 {
                let r = futures::future::poll_fn(|cx| match fut.as_mut().poll(cx) {
                    std::task::Poll::Ready(r) => std::task::Poll::Ready(Some(r)),
                    std::task::Poll::Pending => std::task::Poll::Ready(None),
                })
                .await;
                if r.is_some() {
                    got = r;
                    break;
                }
                settle().await;
            }
            got
        };
        match got {
            Some(Ok(Some(req))) => {
                tr(json!({"ev": "api_done", "op": id, "res": "req", "rport": p32(req.remote_port()), "wait": req.is_wait()}));
                held.push(req);
            }
            _ => tr(json!({"ev": "api_cancel", "op": id, "polls": 20})),
        }
    }
    // stall B's transport
    conn.ba.set(|st| st.blocked = true);
    tr(json!({"ev": "backpressure", "dir": 2, "on": true}));
    let mut kept_b = Vec::new();
    let mut pending_ops: Vec<Op<()>> = Vec::new();
    while let Some(req) = held.pop() {
        let id = next_op;
        next_op += 1;
        let rport = p32(req.remote_port());
        let accept = rng.chance(1, 2);
        let (txr, mut rxr) = tokio::sync::mpsc::unbounded_channel();
        if accept {
            tr(json!({"ev": "api_start", "op": id, "ep": 2, "kind": "req_accept", "rport": rport}));
        } else {
            tr(json!({"ev": "api_start", "op": id, "ep": 2, "kind": "req_reject", "rport": rport, "no_ports": false}));
        }
        let mut op = Op::new(id, 2, async move {
            if accept {
                let r = req.accept().await;
                let _ = txr.send(r.ok());
            } else {
                req.reject(false).await;
                let _ = txr.send(None);
            }
        });
        let mut done = false;
        for _ in 0..rng.range(1, 3) {
            if let Polled::Ready(()) = op.poll() {
                done = true;
                break;
            }
            settle().await;
        }
        if done {
            match rxr.try_recv() {
                Ok(Some((tx, rx))) => {
                    tr(json!({"ev": "api_done", "op": id, "res": "ok", "local": p32(tx.local_port()), "remote": p32(tx.remote_port())}));
                    kept_b.push((tx, rx));
                }
                _ => tr(json!({"ev": "api_done", "op": id, "res": if accept { "err" } else { "ok" }, "err": "chmux"})),
            }
        } else if rng.chance(2, 3) {
            // blocked (on the full dispatcher queue or waiting for the port): cancel it
            tr(json!({"ev": "api_cancel", "op": id, "polls": op.polls}));
            with_label(2, || drop(op));
        } else {
            pending_ops.push(op);
        }
    }
    // transport resumes
    conn.ba.set(|st| st.blocked = false);
    tr(json!({"ev": "backpressure", "dir": 2, "on": false}));
    // B keeps accepting; everything must resolve
    let id = next_op;
    tr(json!({"ev": "api_start", "op": id, "ep": 2, "kind": "accept"}));
    let mut acc = Some(Op::new(id, 2, async move {
        let r = listener.accept().await;
        (r.ok().flatten(), listener)
    }));
    let mut listener_back = None;
    for _ in 0..300 {
        poll_connects(&mut connects, &mut kept);
        pending_ops.retain_mut(|o| !(o.runnable() && matches!(o.poll(), Polled::Ready(()))));
        if let Some(a) = acc.as_mut() {
            if a.runnable() {
                if let Polled::Ready((r, l)) = a.poll() {
                    match r {
                        Some((tx, rx)) => {
                            tr(json!({"ev": "api_done", "op": a.id, "res": "ok", "local": p32(tx.local_port()), "remote": p32(tx.remote_port())}));
                            kept_b.push((tx, rx));
                        }
                        None => tr(json!({"ev": "api_done", "op": a.id, "res": "none"})),
                    }
                    listener_back = Some(l);
                    acc = None;
                }
            }
        }
        conn.flush().await;
    }
    let mut pending: Vec<u64> = connects.iter().map(|o| o.id).collect();
    pending.extend(acc.iter().map(|o| o.id));
    let free = vec![alloc_a.try_allocate().is_some(), alloc_b.try_allocate().is_some()];
    tr(json!({"ev": "quiescent", "pending": pending, "settled": false, "free_ports": free, "held": [0, 0]}));
    for o in connects {
        tr(json!({"ev": "api_cancel", "op": o.id, "polls": o.polls}));
    }
    if let Some(a) = acc {
        tr(json!({"ev": "api_cancel", "op": a.id, "polls": a.polls}));
        drop(a);
    }
    drop(pending_ops);
    for (ep, list) in [(1u64, kept), (2u64, kept_b)] {
        for (tx, rx) in list {
            tr(json!({"ev": "drop", "ep": ep, "what": "sender", "port": p32(tx.local_port())}));
            tr(json!({"ev": "drop", "ep": ep, "what": "receiver", "port": p32(rx.local_port())}));
            drop(tx);
            drop(rx);
        }
    }
    drop(listener_back);
    drop(client);
    tr(json!({"ev": "all_dropped"}));
    conn.teardown().await;
}

/// Directed scenario (C03/C11): a receive call is cancelled while the credit return it started is waiting for
/// space in the dispatcher's event queue; afterwards other operations of the same endpoint (closing the
/// receiver, sending on another direction) must still complete without that receiver being polled again.
pub async fn ret_cancel(seed: u64, die: bool) {
    use remoc::chmux::Received;
    let mut rng = Rng::new(seed ^ 0x4E7C);
    let mut cfg_a = EpCfg::small(&mut rng);
    let mut cfg_b = EpCfg::small(&mut rng);
    cfg_b.shared_q = 1;
    cfg_b.tx_q = 1;
    cfg_b.rbuf = rng.range(4, 7) as u32; // threshold 1: every consumed frame returns credit
    cfg_a.rbuf = 16;
    tr(json!({"ev": "reset", "seed": seed, "wl": "ret_cancel", "die": die, "cfg": [cfg_a.json(), cfg_b.json()]}));
    install_spawn_policy(seed, 1, 4);
    let mut conn = Conn::establish(&cfg_a, &cfg_b).await;
    let client = conn.client[0].clone().unwrap();
    let mut listener = conn.listener[1].take().unwrap();
    let (pab, pba) = (conn.ab.clone(), conn.ba.clone());
    let pump = tokio::spawn(async move {
        loop {
            pab.deliver();
            pba.deliver();
            tokio::task::yield_now().await;
        }
    });
    let (c, s) = tokio::join!(Labeled::new(1, client.connect()), Labeled::new(2, listener.accept()));
    pump.abort();
    let (a_tx, a_rx) = c.expect("connect");
    let (b_tx, b_rx) = s.expect("accept").expect("some");
    conn.flush().await;
    tr(json!({"ev": "open", "ep": 1, "local": p32(a_tx.local_port()), "remote": p32(a_tx.remote_port())}));
    tr(json!({"ev": "open", "ep": 2, "local": p32(b_tx.local_port()), "remote": p32(b_tx.remote_port())}));
    let (a_port, b_port) = (a_tx.local_port(), b_tx.local_port());
    let a_tx = std::sync::Arc::new(tokio::sync::Mutex::new(a_tx));
    let b_rx = std::sync::Arc::new(tokio::sync::Mutex::new(b_rx));
    // A sends two small messages to B
    let mut next_op = 1u64;
    for _ in 0..2 {
        let id = next_op;
        next_op += 1;
        let data = vec![(id * 7) as u8; 1];
        tr(json!({"ev": "api_start", "op": id, "ep": 1, "kind": "send", "port": p32(a_port), "data": bytes_json(&data)}));
        let txc = a_tx.clone();
        let mut op = Op::new(id, 1, async move {
            let mut g = txc.lock_owned().await;
            g.send(Bytes::from(data)).await
        });
        let mut res = None;
        for _ in 0..50 {
            if let Polled::Ready(r) = op.poll() {
                res = Some(r.is_ok());
                break;
            }
            conn.flush().await;
        }
        let polls = op.polls;
        drop(op);
        match res {
            Some(true) => tr(json!({"ev": "api_done", "op": id, "res": "ok"})),
            Some(false) => tr(json!({"ev": "api_done", "op": id, "res": "err", "err": "chmux"})),
            None => tr(json!({"ev": "api_cancel", "op": id, "polls": polls})),
        }
    }
    conn.flush().await;
    // stall B's transport and fill its dispatcher queues with B's own traffic
    conn.ba.set(|st| st.blocked = true);
    tr(json!({"ev": "backpressure", "dir": 2, "on": true}));
    let b_tx = std::sync::Arc::new(tokio::sync::Mutex::new(b_tx));
    let mut fillers: Vec<Op<bool>> = Vec::new();
    for _ in 0..3 {
        let id = next_op;
        next_op += 1;
        let data = vec![(id * 7) as u8; 1];
        tr(json!({"ev": "api_start", "op": id, "ep": 2, "kind": "send", "port": p32(b_port), "data": bytes_json(&data)}));
        let tx = b_tx.clone();
        let mut op = Op::new(id, 2, async move {
            let mut g = tx.lock_owned().await;
            g.send(Bytes::from(data)).await.is_ok()
        });
        match op.poll() {
            Polled::Ready(ok) => tr(json!({"ev": "api_done", "op": id, "res": if ok { "ok" } else { "err" }, "err": "chmux"})),
            _ => {
                fillers.push(op);
                break;
            }
        }
        settle().await;
    }
    // B consumes the first message: its credit return finds the queue full and is parked
    let id = next_op;
    next_op += 1;
    tr(json!({"ev": "api_start", "op": id, "ep": 2, "kind": "recv_any", "port": p32(b_port)}));
    let got = {
        let rxc = b_rx.clone();
        let mut op = Op::new(id, 2, async move {
            let mut g = rxc.lock_owned().await;
            g.recv_any().await
        });
        let mut got = None;
        for _ in 0..10 {
            if let Polled::Ready(r) = op.poll() {
                got = Some(r);
                break;
            }
            settle().await;
        }
        got
    };
    match got {
        Some(Ok(Some(Received::Data(d)))) => tr(json!({"ev": "api_done", "op": id, "res": "data", "data": bytes_json(&Vec::<u8>::from(d))})),
        _ => tr(json!({"ev": "api_cancel", "op": id, "polls": 10})),
    }
    if die {
        // B's dispatcher dies (its incoming stream fails) while the credit return is still parked; the second message is
        // already buffered in B's port: the following receive calls must yield it and then fail - never panic
        conn.ab.set(|st| st.fault_at = Some((st.emitted + 1, "stream_err")));
        let id = next_op;
        next_op += 1;
        let data = vec![0x33u8; 1];
        tr(json!({"ev": "api_start", "op": id, "ep": 1, "kind": "send", "port": p32(a_port), "data": bytes_json(&data)}));
        let txc = a_tx.clone();
        let mut op = Op::new(id, 1, async move {
            let mut g = txc.lock_owned().await;
            g.send(Bytes::from(data)).await
        });
        let mut res = None;
        for _ in 0..30 {
            if let Polled::Ready(r) = op.poll() {
                res = Some(r.is_ok());
                break;
            }
            conn.flush().await;
        }
        let polls = op.polls;
        drop(op);
        match res {
            Some(true) => tr(json!({"ev": "api_done", "op": id, "res": "ok"})),
            Some(false) => tr(json!({"ev": "api_done", "op": id, "res": "err", "err": "chmux"})),
            None => tr(json!({"ev": "api_cancel", "op": id, "polls": polls})),
        }
        for _ in 0..20 {
            conn.flush().await;
        }
        for _ in 0..3 {
            let id = next_op;
            next_op += 1;
            tr(json!({"ev": "api_start", "op": id, "ep": 2, "kind": "recv_any", "port": p32(b_port)}));
            let rxc = b_rx.clone();
            let mut op = Op::new(id, 2, async move {
                let mut g = rxc.lock_owned().await;
                g.recv_any().await
            });
            let mut done = None;
            for _ in 0..40 {
                match op.poll() {
                    Polled::Ready(r) => {
                        done = Some(Some(r));
                        break;
                    }
                    Polled::Panicked => {
                        done = Some(None);
                        break;
                    }
                    Polled::Pending => settle().await,
                }
            }
            match done {
                Some(Some(Ok(Some(Received::Data(d))))) => tr(json!({"ev": "api_done", "op": id, "res": "data", "data": bytes_json(&Vec::<u8>::from(d))})),
                Some(Some(Ok(_))) => tr(json!({"ev": "api_done", "op": id, "res": "none"})),
                Some(Some(Err(_))) => tr(json!({"ev": "api_done", "op": id, "res": "err", "err": "chmux"})),
                Some(None) => tr(json!({"ev": "api_panic", "op": id})),
                None => tr(json!({"ev": "api_cancel", "op": id, "polls": 40})),
            }
        }
        conn.ba.set(|st| st.blocked = false);
        tr(json!({"ev": "backpressure", "dir": 2, "on": false}));
        for o in fillers {
            tr(json!({"ev": "api_cancel", "op": o.id, "polls": o.polls}));
        }
        tr(json!({"ev": "quiescent", "pending": [], "settled": false}));
        drop(a_tx);
        drop(a_rx);
        drop(b_tx);
        drop(b_rx);
        drop(client);
        drop(listener);
        tr(json!({"ev": "all_dropped"}));
        conn.teardown().await;
        return;
    }
    // the next receive call starts flushing the parked return and is cancelled after a few polls
    let id = next_op;
    next_op += 1;
    tr(json!({"ev": "api_start", "op": id, "ep": 2, "kind": "recv_any", "port": p32(b_port)}));
    {
        let rxc = b_rx.clone();
        let mut op = Op::new(id, 2, async move {
            let mut g = rxc.lock_owned().await;
            g.recv_any().await
        });
        let polls = rng.range(1, 3);
        let mut done = None;
        for _ in 0..polls {
            if let Polled::Ready(r) = op.poll() {
                done = Some(r);
                break;
            }
            settle().await;
        }
        match done {
            Some(Ok(Some(Received::Data(d)))) => tr(json!({"ev": "api_done", "op": id, "res": "data", "data": bytes_json(&Vec::<u8>::from(d))})),
            Some(_) => tr(json!({"ev": "api_done", "op": id, "res": "err", "err": "other"})),
            None => tr(json!({"ev": "api_cancel", "op": id, "polls": polls})),
        }
    }
    // a first close() is abandoned while the event queue is still full (nothing was queued): it must not count as done
    {
        let id = next_op;
        next_op += 1;
        tr(json!({"ev": "api_start", "op": id, "ep": 2, "kind": "close", "port": p32(b_port)}));
        let rxc = b_rx.clone();
        let mut op = Op::new(id, 2, async move {
            let mut g = rxc.lock_owned().await;
            g.close().await;
        });
        let polls = rng.range(1, 3);
        let mut done = false;
        for _ in 0..polls {
            if let Polled::Ready(()) = op.poll() {
                done = true;
                break;
            }
            settle().await;
        }
        if done {
            tr(json!({"ev": "api_done", "op": id, "res": "ok"}));
        } else {
            tr(json!({"ev": "api_cancel", "op": id, "polls": polls}));
        }
    }
    // now B closes its receiver (needs the event queue) while the transport resumes
    let id = next_op;
    tr(json!({"ev": "api_start", "op": id, "ep": 2, "kind": "close", "port": p32(b_port)}));
    let rxc = b_rx.clone();
    let mut close_op = Some(Op::new(id, 2, async move {
        let mut g = rxc.lock_owned().await;
        g.close().await;
    }));
    conn.ba.set(|st| st.blocked = false);
    tr(json!({"ev": "backpressure", "dir": 2, "on": false}));
    for _ in 0..300 {
        if let Some(op) = close_op.as_mut() {
            if op.runnable() {
                if let Polled::Ready(()) = op.poll() {
                    tr(json!({"ev": "api_done", "op": op.id, "res": "ok"}));
                    close_op = None;
                }
            }
        }
        fillers.retain_mut(|o| {
            if o.runnable() {
                if let Polled::Ready(ok) = o.poll() {
                    tr(json!({"ev": "api_done", "op": o.id, "res": if ok { "ok" } else { "err" }, "err": "chmux"}));
                    return false;
                }
            }
            true
        });
        conn.flush().await;
    }
    let mut pending: Vec<u64> = fillers.iter().map(|o| o.id).collect();
    pending.extend(close_op.iter().map(|o| o.id));
    tr(json!({"ev": "quiescent", "pending": pending, "settled": false}));
    for o in fillers {
        tr(json!({"ev": "api_cancel", "op": o.id, "polls": o.polls}));
    }
    if let Some(o) = close_op {
        tr(json!({"ev": "api_cancel", "op": o.id, "polls": o.polls}));
        drop(o);
    }
    tr(json!({"ev": "drop", "ep": 1, "what": "sender", "port": p32(a_port)}));
    drop(a_tx);
    tr(json!({"ev": "drop", "ep": 1, "what": "receiver", "port": p32(a_port)}));
    drop(a_rx);
    tr(json!({"ev": "drop", "ep": 2, "what": "sender", "port": p32(b_port)}));
    drop(b_tx);
    tr(json!({"ev": "drop", "ep": 2, "what": "receiver", "port": p32(b_port)}));
    drop(b_rx);
    drop(client);
    drop(listener);
    tr(json!({"ev": "all_dropped"}));
    conn.teardown().await;
}


/// Hostile peer on a stream transport (C08, frame length cap): a typed connection over `Connect::io`; after some
/// traffic the victim's incoming byte stream carries a frame whose length prefix exceeds the victim's
/// max_frame_length (MAX_MSG_LENGTH + its chunk size), followed by only a few bytes.  The victim must end the
/// connection with an error right away - not wait for (or buffer) the announced number of bytes - and every local
/// user must observe an error.
pub async fn stream_hostile(seed: u64) {
    let mut rng = Rng::new(seed ^ 0x57E4);
    let (ca, cb) = (upper_cfg(&mut rng), upper_cfg(&mut rng));
    let max_a = ca.to_cfg().max_frame_length() as usize;
    tr(json!({"ev": "reset", "seed": seed, "wl": "stream_hostile", "cfg": [ca.json(), cb.json()], "max_frame": max_a}));
    install_spawn_policy(seed, 1, 4);
    FORCE_STREAM.store(2, std::sync::atomic::Ordering::SeqCst);
    let conn = rem_connect::<u32, u32>(&ca, &cb, seed, 0).await;
    FORCE_STREAM.store(0, std::sync::atomic::Ordering::SeqCst);
    let links = conn.links();
    let RemConn { mut a_tx, mut a_rx, mut b_tx, mut b_rx, ab: _, ba, conn: chs, pump } = conn;
    // some healthy traffic in both directions
    for v in 1..=rng.range(1, 4) as u32 {
        let (s, r) = tokio::join!(a_tx.send(v), b_rx.recv());
        tr(json!({"ev": "sh_item", "dir": 1, "sent": s.is_ok(), "got": r.ok().flatten().map(|x| x as i64).unwrap_or(-1), "v": v}));
        let (s, r) = tokio::join!(b_tx.send(v + 100), a_rx.recv());
        tr(json!({"ev": "sh_item", "dir": 2, "sent": s.is_ok(), "got": r.ok().flatten().map(|x| x as i64).unwrap_or(-1), "v": v + 100}));
    }
    // the oversized frame: its true length is what the stream adapter announces in the prefix; the victim only ever
    // gets to see the prefix and a few bytes of it (the rest is withheld by stalling the link)
    let over = match rng.below(3) {
        0 => max_a + 1,
        1 => max_a + rng.range(2, 200) as usize,
        _ => max_a * 4 + 1000,
    };
    tr(json!({"ev": "sh_inject", "len": over, "max": max_a}));
    STREAM_WITHHOLD.store(over, std::sync::atomic::Ordering::SeqCst);
    ba.inject(Bytes::from(vec![0x5Au8; over]));
    let [ha, hb] = chs;
    let mut handles = vec![spawn_d(1, async move {
        let r = ha.await;
        let ok = matches!(r, Ok(Ok(())));
        tr(json!({"ev": "sh_conn_end", "ep": 1, "ok": ok}));
    })];
    let left = wait_tasks(&mut handles, &links, 3000).await;
    // local users of the victim observe an error
    let send_ok = patient(a_tx.send(7), 2000, 300).await.map(|r| r.is_ok()).unwrap_or(true);
    let recv_err = match patient(a_rx.recv(), 2000, 300).await {
        Some(Ok(Some(_))) => false,
        Some(Ok(None)) => false,
        Some(Err(_)) => true,
        None => false,
    };
    STREAM_WITHHOLD.store(0, std::sync::atomic::Ordering::SeqCst);
    tr(json!({"ev": "sh_after", "conn_pending": left, "send_ok": send_ok, "recv_err": recv_err}));
    for h in handles {
        h.abort();
    }
    hb.abort();
    pump.abort();
    drop(b_tx);
    drop(b_rx);
    settle().await;
}


/// Wake-up after a cancelled send (C03): the window is full; a send waits for credit and is abandoned, a second one
/// waits; the receiver then consumes everything in one call, i.e. a single credit return arrives.  The second send
/// must go through.
pub async fn wake_scenario(seed: u64) {
    let mut rng = Rng::new(seed ^ 0x77A3);
    let mut cfg_a = EpCfg::small(&mut rng);
    let mut cfg_b = EpCfg::small(&mut rng);
    cfg_b.rbuf = rng.range(4, 8) as u32;
    cfg_b.chunk = 16;
    cfg_b.max_data = 64;
    cfg_a.max_data = 64;
    tr(json!({"ev": "reset", "seed": seed, "wl": "wake", "cfg": [cfg_a.json(), cfg_b.json()]}));
    install_spawn_policy(seed, 1, 4);
    let mut conn = Conn::establish(&cfg_a, &cfg_b).await;
    let client = conn.client[0].clone().unwrap();
    let mut listener = conn.listener[1].take().unwrap();
    let (pab, pba) = (conn.ab.clone(), conn.ba.clone());
    let pump = tokio::spawn(async move {
        loop {
            pab.deliver();
            pba.deliver();
            tokio::task::yield_now().await;
        }
    });
    let (c, s) = tokio::join!(Labeled::new(1, client.connect()), Labeled::new(2, listener.accept()));
    pump.abort();
    let (a_tx, a_rx) = c.expect("connect");
    let (b_tx, mut b_rx) = s.expect("accept").expect("some");
    conn.flush().await;
    tr(json!({"ev": "open", "ep": 1, "local": p32(a_tx.local_port()), "remote": p32(a_tx.remote_port())}));
    tr(json!({"ev": "open", "ep": 2, "local": p32(b_tx.local_port()), "remote": p32(b_tx.remote_port())}));
    let (a_port, b_port) = (a_tx.local_port(), b_tx.local_port());
    let a_tx = std::sync::Arc::new(tokio::sync::Mutex::new(a_tx));
    let mut next_op = 1u64;
    // 1: one message that uses the whole window
    let fill = cfg_b.rbuf as usize;
    let mut send = |len: usize, next_op: &mut u64| {
        let id = *next_op;
        *next_op += 1;
        let data = vec![(id * 11) as u8; len];
        tr(json!({"ev": "api_start", "op": id, "ep": 1, "kind": "send", "port": p32(a_port), "data": bytes_json(&data)}));
        let txc = a_tx.clone();
        Op::new(id, 1, async move {
            let mut g = txc.lock_owned().await;
            g.send(Bytes::from(data)).await.is_ok()
        })
    };
    let mut op1 = send(fill, &mut next_op);
    for _ in 0..60 {
        if let Polled::Ready(ok) = op1.poll() {
            tr(json!({"ev": "api_done", "op": op1.id, "res": if ok { "ok" } else { "err" }, "err": "chmux"}));
            break;
        }
        conn.flush().await;
    }
    drop(op1);
    conn.flush().await;
    // 2: waits for credit, abandoned after a few polls (possibly several such sends)
    for _ in 0..rng.range(1, 2) {
        let mut op2 = send(1, &mut next_op);
        let polls = rng.range(2, 6);
        for _ in 0..polls {
            let _ = op2.poll();
            conn.flush().await;
        }
        tr(json!({"ev": "api_cancel", "op": op2.id, "polls": polls}));
        drop(op2);
        conn.flush().await;
    }
    // 3: waits for credit as well
    let mut op3 = Some(send(1, &mut next_op));
    for _ in 0..4 {
        if let Some(o) = op3.as_mut() {
            if let Polled::Ready(ok) = o.poll() {
                tr(json!({"ev": "api_done", "op": o.id, "res": if ok { "ok" } else { "err" }, "err": "chmux"}));
                op3 = None;
            }
        }
        conn.flush().await;
    }
    // B consumes the whole message in one call: a single credit return
    let id = next_op;
    tr(json!({"ev": "api_start", "op": id, "ep": 2, "kind": "recv_any", "port": p32(b_port)}));
    let mut rop = Op::new(id, 2, async move {
        let r = b_rx.recv_any().await;
        (r, b_rx)
    });
    let mut b_rx_back = None;
    for _ in 0..60 {
        if let Polled::Ready((r, rx)) = rop.poll() {
            match r {
                Ok(Some(remoc::chmux::Received::Data(d))) => tr(json!({"ev": "api_done", "op": id, "res": "data", "data": bytes_json(&Vec::<u8>::from(d))})),
                _ => tr(json!({"ev": "api_done", "op": id, "res": "err", "err": "other"})),
            }
            b_rx_back = Some(rx);
            break;
        }
        conn.flush().await;
    }
    drop(rop);
    for _ in 0..200 {
        if let Some(o) = op3.as_mut() {
            if o.runnable() {
                if let Polled::Ready(ok) = o.poll() {
                    tr(json!({"ev": "api_done", "op": o.id, "res": if ok { "ok" } else { "err" }, "err": "chmux"}));
                    op3 = None;
                }
            }
        }
        conn.flush().await;
        if op3.is_none() {
            break;
        }
    }
    // the receiver keeps receiving: it has consumed everything, so a send that is still pending is stuck
    let rid = next_op + 1;
    let mut rop2 = None;
    if let Some(mut rx) = b_rx_back.take() {
        tr(json!({"ev": "api_start", "op": rid, "ep": 2, "kind": "recv_any", "port": p32(b_port)}));
        let mut o = Op::new(rid, 2, async move {
            let r = rx.recv_any().await;
            (r, rx)
        });
        for _ in 0..30 {
            match o.poll() {
                Polled::Ready((r, rx)) => {
                    match r {
                        Ok(Some(remoc::chmux::Received::Data(d))) => tr(json!({"ev": "api_done", "op": rid, "res": "data", "data": bytes_json(&Vec::<u8>::from(d))})),
                        _ => tr(json!({"ev": "api_done", "op": rid, "res": "err", "err": "other"})),
                    }
                    b_rx_back = Some(rx);
                    break;
                }
                _ => conn.flush().await,
            }
            // the pending send may complete now
            if let Some(s3) = op3.as_mut() {
                if s3.runnable() {
                    if let Polled::Ready(ok) = s3.poll() {
                        tr(json!({"ev": "api_done", "op": s3.id, "res": if ok { "ok" } else { "err" }, "err": "chmux"}));
                        op3 = None;
                    }
                }
            }
        }
        if b_rx_back.is_none() {
            rop2 = Some(o);
        }
    }
    let mut pending: Vec<u64> = op3.iter().map(|o| o.id).collect();
    if rop2.is_some() {
        pending.push(rid);
    }
    tr(json!({"ev": "quiescent", "pending": pending, "settled": false}));
    if let Some(o) = op3 {
        tr(json!({"ev": "api_cancel", "op": o.id, "polls": o.polls}));
    }
    if let Some(o) = rop2 {
        tr(json!({"ev": "api_cancel", "op": rid, "polls": o.polls}));
        drop(o);
    }
    tr(json!({"ev": "drop", "ep": 1, "what": "sender", "port": p32(a_port)}));
    drop(a_tx);
    tr(json!({"ev": "drop", "ep": 1, "what": "receiver", "port": p32(a_port)}));
    drop(a_rx);
    tr(json!({"ev": "drop", "ep": 2, "what": "sender", "port": p32(b_port)}));
    drop(b_tx);
    tr(json!({"ev": "drop", "ep": 2, "what": "receiver", "port": p32(b_port)}));
    drop(b_rx_back);
    drop(client);
    drop(listener);
    tr(json!({"ev": "all_dropped"}));
    conn.teardown().await;
}
