//! Small chmux workloads: idle connection under a timeout (C06), faults inside the handshake (C06).

use super::*;
use remoc::chmux::ChMux;

/// A healthy connection that stays idle for `periods` x timeout of virtual time must not be torn down.
pub async fn idle(seed: u64, periods: u64) {
    let mut rng = Rng::new(seed ^ 0x1D1E);
    let mut cfg_a = EpCfg::small(&mut rng);
    let mut cfg_b = EpCfg::small(&mut rng);
    cfg_a.timeout_ms = rng.range(40, 400);
    cfg_b.timeout_ms = rng.range(40, 400);
    tr(json!({"ev": "reset", "seed": seed, "wl": "idle", "cfg": [cfg_a.json(), cfg_b.json()]}));
    install_spawn_policy(seed, 1, 4);
    let mut conn = Conn::establish(&cfg_a, &cfg_b).await;
    let tmin = cfg_a.timeout_ms.min(cfg_b.timeout_ms);
    let total = periods * cfg_a.timeout_ms.max(cfg_b.timeout_ms);
    let mut elapsed = 0u64;
    let mut skipped = false;
    while elapsed < total {
        // healthy transport: every frame is delivered with a latency of at most a quarter of the smaller timeout
        let step = rng.range(1, tmin / 8);
        tokio::time::advance(Duration::from_millis(step)).await;
        elapsed += step;
        settle().await;
        if skipped || rng.chance(2, 3) {
            conn.flush().await;
            skipped = false;
        } else {
            skipped = true;
        }
        if conn.run.iter().flatten().any(|h| h.is_finished()) {
            break;
        }
    }
    tr(json!({"ev": "advance", "ms": elapsed}));
    conn.flush().await;
    conn.reap().await;
    tr(json!({"ev": "quiescent", "pending": [], "idle_ms": elapsed}));
    tr(json!({"ev": "all_dropped"}));
    conn.timeout_ms = cfg_a.timeout_ms.max(cfg_b.timeout_ms);
    conn.teardown().await;
}

/// Fault while the two endpoints exchange Hello: both `ChMux::new` calls must complete (with an error for the
/// side that can observe the fault) within the connection timeout.
pub async fn hs_fault(seed: u64, kind: &'static str, dir: u64, at: u64) {
    let mut rng = Rng::new(seed ^ 0x4511);
    let mut cfg_a = EpCfg::small(&mut rng);
    let mut cfg_b = EpCfg::small(&mut rng);
    cfg_a.timeout_ms = 1000;
    cfg_b.timeout_ms = 1000;
    tr(json!({"ev": "reset", "seed": seed, "wl": "hs_fault", "cfg": [cfg_a.json(), cfg_b.json()], "fault": {"kind": kind, "dir": dir, "at": at}}));
    install_spawn_policy(seed, 1, 4);
    let (ab, ba) = link_pair();
    (if dir == 1 { &ab } else { &ba }).set(|st| st.fault_at = Some((at, kind)));
    let (a_sink, b_stream) = ab.halves();
    let (b_sink, a_stream) = ba.halves();
    let (ca, cb) = (cfg_a.to_cfg(), cfg_b.to_cfg());
    tr(json!({"ev": "api_start", "op": 1, "ep": 1, "kind": "mux_new"}));
    tr(json!({"ev": "api_start", "op": 2, "ep": 2, "kind": "mux_new"}));
    let mut ops = vec![
        Some(Op::new(1, 1, async move { ChMux::new(ca, a_sink, a_stream).await.map(|_| ()).map_err(|e| mux_err_class(&Err(e))) })),
        Some(Op::new(2, 2, async move { ChMux::new(cb, b_sink, b_stream).await.map(|_| ()).map_err(|e| mux_err_class(&Err(e))) })),
    ];
    let mut waited = 0u64;
    for round in 0..2000u64 {
        for o in ops.iter_mut() {
            if let Some(op) = o {
                if op.runnable() && rng.chance(2, 3) {
                    let id = op.id;
                    match op.poll() {
                        Polled::Ready(Ok(())) => {
                            tr(json!({"ev": "api_done", "op": id, "res": "ok"}));
                            *o = None;
                        }
                        Polled::Ready(Err(e)) => {
                            tr(json!({"ev": "api_done", "op": id, "res": "err", "err": e}));
                            *o = None;
                        }
                        Polled::Pending => {}
                        Polled::Panicked => {
                            tr(json!({"ev": "api_panic", "op": id}));
                            *o = None;
                        }
                    }
                }
            }
        }
        if rng.chance(1, 2) {
            ab.deliver();
        }
        if rng.chance(1, 2) {
            ba.deliver();
        }
        settle().await;
        if ops.iter().all(|o| o.is_none()) {
            break;
        }
        if round % 25 == 24 && waited < 3000 {
            tr(json!({"ev": "advance", "ms": 250}));
            tokio::time::advance(Duration::from_millis(250)).await;
            waited += 250;
        }
    }
    let pending: Vec<u64> = ops.iter().flatten().map(|o| o.id).collect();
    let faulted = ab.0.lock().unwrap().faulted || ba.0.lock().unwrap().faulted;
    tr(json!({"ev": "quiescent", "pending": pending, "settled": faulted && waited >= 3000}));
    for o in ops.into_iter().flatten() {
        tr(json!({"ev": "api_cancel", "op": o.id, "polls": o.polls}));
    }
}
