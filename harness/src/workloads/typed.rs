//! Typed channels (C04, C05 wiring basics, C11 typed part): base and mpsc channels across a real connection with
//! items whose encoded size straddles max_data_size / chunk size / max_item_size, items whose serialization
//! fails early or late, cancelled sends, several senders, receiver close, connection cut.

use super::*;
use remoc::rch::{base, mpsc};
use serde::{Deserialize, Serialize, Serializer, ser::SerializeSeq};

/// Item whose payload is a deterministic function of (id, len); serialization can be made to fail after
/// `poison_at` payload bytes.
#[derive(Debug, Deserialize)]
pub struct Item {
    pub id: u32,
    #[serde(deserialize_with = "de_data")]
    pub data: Vec<u8>,
    /// Optional embedded channel half: the receiver echoes the item id through it (wiring check).
    #[serde(default)]
    pub chan: Option<remoc::rch::oneshot::Sender<u32>>,
    /// Trailing field whose serialization fails when `poison_tail` is set: the codec writes every struct
    /// field as its own block, so a failure here happens after `data` has been streamed to the peer.
    #[serde(default)]
    pub tail: (),
    #[serde(skip)]
    pub poison_at: Option<usize>,
    #[serde(skip)]
    pub poison_tail: bool,
}

/// When set, deserializing a payload byte takes this many microseconds of real time on the deserializer
/// thread, so that the chunk queue between `base::Receiver::recv` and that thread fills up.
pub static SLOW_DE_US: std::sync::atomic::AtomicU64 = std::sync::atomic::AtomicU64::new(0);

fn de_data<'de, D: serde::Deserializer<'de>>(d: D) -> Result<Vec<u8>, D::Error> {
    struct V;
    impl<'de> serde::de::Visitor<'de> for V {
        type Value = Vec<u8>;
        fn expecting(&self, f: &mut std::fmt::Formatter) -> std::fmt::Result {
            f.write_str("payload bytes")
        }
        fn visit_seq<A: serde::de::SeqAccess<'de>>(self, mut seq: A) -> Result<Vec<u8>, A::Error> {
            let us = SLOW_DE_US.load(std::sync::atomic::Ordering::Relaxed);
            let mut v = Vec::new();
            while let Some(b) = seq.next_element::<u8>()? {
                // one sleep per 32 elements: thousands of tiny sleeps overshoot badly on a loaded machine
                if us > 0 && v.len() % 32 == 31 {
                    std::thread::sleep(std::time::Duration::from_micros(us * 32));
                }
                v.push(b);
            }
            Ok(v)
        }
    }
    d.deserialize_seq(V)
}

struct Tail(bool);
impl Serialize for Tail {
    fn serialize<S: Serializer>(&self, s: S) -> Result<S::Ok, S::Error> {
        if self.0 {
            return Err(serde::ser::Error::custom("poisoned item (tail)"));
        }
        s.serialize_unit()
    }
}

struct Payload<'a>(&'a [u8], Option<usize>);
impl Serialize for Payload<'_> {
    fn serialize<S: Serializer>(&self, s: S) -> Result<S::Ok, S::Error> {
        let mut seq = s.serialize_seq(Some(self.0.len()))?;
        for (i, b) in self.0.iter().enumerate() {
            if Some(i) == self.1 {
                return Err(serde::ser::Error::custom("poisoned item"));
            }
            seq.serialize_element(b)?;
        }
        if self.1.is_some_and(|p| p >= self.0.len()) {
            return Err(serde::ser::Error::custom("poisoned item"));
        }
        seq.end()
    }
}
impl Serialize for Item {
    fn serialize<S: Serializer>(&self, s: S) -> Result<S::Ok, S::Error> {
        use serde::ser::SerializeStruct;
        let mut st = s.serialize_struct("Item", 4)?;
        st.serialize_field("id", &self.id)?;
        st.serialize_field("data", &Payload(&self.data, self.poison_at))?;
        st.serialize_field("chan", &self.chan)?;
        st.serialize_field("tail", &Tail(self.poison_tail))?;
        st.end()
    }
}

pub fn payload(id: u32, len: usize) -> Vec<u8> {
    (0..len).map(|i| ((id as usize * 31 + i * 7 + 3) % 251) as u8).collect()
}
fn item(id: u32, len: usize, poison_at: Option<usize>) -> Item {
    // a poison position at or past the end of the payload means: fail in the trailing field
    let poison_tail = poison_at.is_some_and(|p| p >= len);
    Item { id, data: payload(id, len), chan: None, tail: (), poison_at: if poison_tail { None } else { poison_at }, poison_tail }
}

/// Attaches a oneshot sender to the item; the returned task logs what comes back through it.
fn with_echo(mut it: Item, echoes: &mut Vec<tokio::task::JoinHandle<()>>) -> Item {
    let (tx, rx) = remoc::rch::oneshot::channel::<u32, remoc::codec::Default>();
    let id = it.id;
    it.chan = Some(tx);
    tr(json!({"ev": "t_echo_new", "id": id}));
    echoes.push(spawn_d(1, async move {
        match rx.await {
            Ok(v) => tr(json!({"ev": "t_echo", "id": id, "got": v})),
            Err(_) => tr(json!({"ev": "t_echo", "id": id, "got": -1})),
        }
    }));
    it
}

#[derive(Clone, Copy, Debug, PartialEq)]
enum Mode {
    Ok,
    PoisonEarly,
    PoisonLate,
    Over,
    Cancel(u64),
}

fn pick(rng: &mut Rng, max_data: usize, allow_cancel: bool) -> (usize, Mode) {
    let len = match rng.below(6) {
        0 => rng.below(8) as usize,
        1 => rng.range(8, 40) as usize,
        2 => max_data.saturating_sub(12) + rng.below(24) as usize,
        3 => max_data + rng.range(1, 60) as usize,
        4 => 3 * max_data + rng.below(40) as usize,
        _ => rng.range(1, 2 * max_data as u64) as usize,
    };
    let mode = match rng.below(16) {
        0 => Mode::PoisonEarly,
        1 | 2 => Mode::PoisonLate,
        3 => Mode::Over,
        4 | 5 if allow_cancel => Mode::Cancel(rng.range(1, 8)),
        _ => Mode::Ok,
    };
    // failing items are mostly large, so that they are streamed and abort in the middle of a transmission
    let len = if mode == Mode::PoisonLate || matches!(mode, Mode::Cancel(_)) { len.max(max_data + rng.range(10, 80) as usize) } else { len };
    (len, mode)
}

fn base_err(e: &base::SendErrorKind) -> &'static str {
    match e {
        base::SendErrorKind::Serialize(_) => "serialize",
        base::SendErrorKind::Send(_) => "send",
        base::SendErrorKind::MaxItemSizeExceeded => "max_item_size",
        _ => "other",
    }
}

const OVER_LIMIT: usize = 600;
const FLOOD_CAP: u32 = 300;

/// base channel: one sender, one receiver, items sent one after the other (each possibly failing or cancelled).
///
/// Variants: `0` standard mix; `1` "slow": long streamed items towards a receiver with small chunks and a big
/// receive buffer whose deserializer thread is slow, while `recv` calls are abandoned after a few polls (the
/// chunk queue to the thread is full then); `2` "portabort": the first item carries a channel and its size
/// sweeps around the receive buffer of a receiver that has not started yet, so that its send is abandoned
/// while it waits for the credits of the port message (between the data and the port message).
pub async fn base_scenario(seed: u64, cut: bool, variant: u64) {
    let mut rng = Rng::new(seed ^ 0x7B45);
    let (mut ca, mut cb) = (upper_cfg(&mut rng), upper_cfg(&mut rng));
    ca.max_data = *rng.pick(&[64usize, 128]);
    cb.max_data = *rng.pick(&[64usize, 128]);
    let (slow, portabort) = (variant == 1, variant == 2);
    if slow {
        cb.chunk = 16;
        cb.rbuf = 4096;
        cb.max_data = 64;
    }
    if portabort {
        cb.rbuf = *rng.pick(&[128u32, 256]);
        cb.max_data = 512;
        ca.max_data = 512;
    }
    SLOW_DE_US.store(if slow { 20 } else { 0 }, std::sync::atomic::Ordering::SeqCst);
    tr(json!({"ev": "reset", "seed": seed, "wl": "typed_base", "cfg": [ca.json(), cb.json()], "cut": cut, "variant": variant}));
    install_spawn_policy(seed, 1, 4);
    let conn = rem_connect::<Item, ()>(&ca, &cb, seed, 0).await;
    let links = conn.links();
    let RemConn { mut a_tx, a_rx, b_tx, mut b_rx, ab, ba, conn: chs, pump } = conn;
    let over_limit = if slow { 4000 } else { OVER_LIMIT };
    a_tx.set_max_item_size(over_limit);
    let n = rng.range(4, 9) as u32;
    let max_data = cb.max_data;
    let rbuf = cb.rbuf as usize;
    let mut r1 = Rng::new(seed * 13 + 1);
    let go = std::sync::Arc::new(std::sync::atomic::AtomicBool::new(!portabort));
    let go2 = go.clone();
    let sender = spawn_d(1, async move {
        let mut echoes = Vec::new();
        let mut prev_aborted = false;
        for id in 1..=n {
            let (len, mode) = pick(&mut r1, max_data, true);
            // an aborted transmission is usually followed by a well-formed item
            let (len, mode) = if prev_aborted && r1.chance(3, 4) { (len, Mode::Ok) } else { (len, mode) };
            let (len, mode) = if slow && mode == Mode::Ok && r1.chance(1, 2) { (r1.range(560, 1400) as usize, mode) } else { (len, mode) };
            // portabort: the encoded size of the first item (payload + some tens of bytes) straddles the
            // receive buffer; it is abandoned after enough polls for all of its data to be on the wire
            let force_echo = portabort && id == 1;
            let (len, mode) = if force_echo { (rbuf.saturating_sub(10 + (seed % 80) as usize), Mode::Cancel(40 + r1.below(40))) } else { (len, mode) };
            let (len, mode) = if portabort && id > 1 { (len.min(40), Mode::Ok) } else { (len, mode) };
            prev_aborted = matches!(mode, Mode::PoisonLate | Mode::Cancel(_));
            let (len, poison) = match mode {
                Mode::PoisonEarly => (len.max(4), Some(1)),
                Mode::PoisonLate => (len.max(4), Some(len.max(4))),
                Mode::Over => (over_limit + 50 + len, None),
                _ => (len, None),
            };
            tr(json!({"ev": "t_send", "s": 1, "id": id, "len": len, "mode": format!("{mode:?}")}));
            let it = item(id, len, poison);
            let it = if r1.chance(1, 3) || force_echo { with_echo(it, &mut echoes) } else { it };
            let polls = if let Mode::Cancel(k) = mode { k } else { u64::MAX };
            match cancel_after(a_tx.send(it), polls).await {
                None => tr(json!({"ev": "t_sent", "s": 1, "id": id, "res": "cancel"})),
                Some(Ok(())) => tr(json!({"ev": "t_sent", "s": 1, "id": id, "res": "ok"})),
                Some(Err(e)) => {
                    let k = base_err(&e.kind);
                    tr(json!({"ev": "t_sent", "s": 1, "id": id, "res": "err", "kind": k}));
                    if k == "send" {
                        break;
                    }
                }
            }
            go2.store(true, std::sync::atomic::Ordering::SeqCst);
            yields(r1.below(10)).await;
        }
        go2.store(true, std::sync::atomic::Ordering::SeqCst);
        tr(json!({"ev": "t_drop_tx", "s": 1}));
        drop(a_tx);
        for e in echoes {
            let _ = e.await;
        }
    });
    let mut r2 = Rng::new(seed * 13 + 2);
    let receiver = spawn_d(2, async move {
        // portabort: the receiver starts only after the first send has resolved
        while !go.load(std::sync::atomic::Ordering::SeqCst) {
            tokio::task::yield_now().await;
        }
        loop {
            yields(r2.below(if slow { 150 } else { 12 })).await;
            let polls = if r2.chance(1, if slow { 2 } else { 4 }) { r2.range(1, 10) } else { u64::MAX };
            let res = match cancel_after(b_rx.recv(), polls).await {
                Some(r) => r,
                None => {
                    tr(json!({"ev": "t_recv_cancel"}));
                    continue;
                }
            };
            match res {
                Ok(Some(it)) => {
                    let eq = it.data == payload(it.id, it.data.len());
                    tr(json!({"ev": "t_recv", "r": "item", "id": it.id, "len": it.data.len(), "eq": eq}));
                    if let Some(ch) = it.chan {
                        let _ = ch.send(it.id);
                    }
                }
                Ok(None) => {
                    tr(json!({"ev": "t_recv", "r": "none"}));
                    break;
                }
                Err(e) => {
                    let fin = e.is_final();
                    tr(json!({"ev": "t_recv", "r": "err", "final": fin}));
                    if fin {
                        break;
                    }
                }
            }
        }
    });
    let mut handles = vec![sender, receiver];
    if cut {
        yields(rng.range(20, 200)).await;
        tr(json!({"ev": "fault", "kind": "cut"}));
        for l in [&ab, &ba] {
            l.set(|st| {
                st.sink_err = true;
                st.stream_err = true;
            });
        }
    }
    let left = wait_tasks(&mut handles, &links, 4000).await;
    tr(json!({"ev": "t_end", "pending": left}));
    for h in handles {
        h.abort();
    }
    drop(a_rx);
    drop(b_tx);
    pump.abort();
    for h in chs {
        h.abort();
    }
    settle().await;
}

/// mpsc channel whose receiver lives on B: 1-2 senders on A (clones) with a local queue, Sending handles,
/// receiver close or sender drop at a random moment.
///
/// `flood`: a single sender keeps the local queue non-empty with small items until a send fails (at most
/// `FLOOD_CAP` items) while the receiver closes after a few items and drains: the close must become observable.
pub async fn mpsc_scenario(seed: u64, cut: bool, flood: bool) {
    let mut rng = Rng::new(seed ^ 0x3D5C);
    let (mut ca, mut cb) = (upper_cfg(&mut rng), upper_cfg(&mut rng));
    ca.max_data = *rng.pick(&[64usize, 128]);
    cb.max_data = *rng.pick(&[64usize, 128]);
    tr(json!({"ev": "reset", "seed": seed, "wl": "typed_mpsc", "cfg": [ca.json(), cb.json()], "cut": cut, "flood": flood}));
    install_spawn_policy(seed, 1, 4);
    let mut conn = rem_connect::<mpsc::Receiver<Item>, ()>(&ca, &cb, seed, 0).await;
    let links = conn.links();
    let qlen = rng.range(1, 4) as usize;
    let (tx, rx) = mpsc::channel::<Item, remoc::codec::Default>(qlen);
    let (s, r) = tokio::join!(conn.a_tx.send(rx), conn.b_rx.recv());
    s.ok().expect("send receiver");
    let mut rx = r.ok().expect("recv receiver").expect("receiver");
    let nsenders = if flood { 1 } else { rng.range(1, 2) };
    let close_after = if flood { rng.range(1, 10) } else if rng.chance(1, 3) { rng.range(1, 5) } else { u64::MAX };
    let max_data = cb.max_data;
    let mut handles = Vec::new();
    for sidx in 1..=nsenders {
        let tx = tx.clone();
        let mut r1 = Rng::new(seed * 17 + sidx);
        let n = if flood { FLOOD_CAP } else { rng.range(3, 7) as u32 };
        handles.push(spawn_d(1, async move {
            let mut sendings = Vec::new();
            let mut stopped = "cap";
            for k in 1..=n {
                let id = if flood { k } else { sidx as u32 * 100 + k };
                let (len, mode) = if flood { (r1.below(8) as usize, Mode::Ok) } else { pick(&mut r1, max_data, false) };
                let (len, poison) = match mode {
                    Mode::PoisonEarly => (len.max(4), Some(1)),
                    Mode::PoisonLate => (len.max(4), Some(len.max(4))),
                    _ => (len, None),
                };
                let mode = if mode == Mode::Over { Mode::Ok } else { mode };
                tr(json!({"ev": "t_send", "s": sidx, "id": id, "len": len, "mode": format!("{mode:?}")}));
                match tx.send(item(id, len, poison)).await {
                    Ok(sending) => {
                        tr(json!({"ev": "t_sent", "s": sidx, "id": id, "res": "queued"}));
                        sendings.push((id, sending));
                    }
                    Err(e) => {
                        let closed = e.is_closed();
                        tr(json!({"ev": "t_sent", "s": sidx, "id": id, "res": "err", "kind": if closed { "closed" } else { "failed" }}));
                        stopped = "err";
                        break;
                    }
                }
                if !flood {
                    yields(r1.below(10)).await;
                }
            }
            if flood {
                tr(json!({"ev": "t_flood_done", "s": sidx, "stopped": stopped}));
            }
            // the fate of every queued value
            for (id, sending) in sendings {
                match sending.await {
                    Ok(()) => tr(json!({"ev": "t_sending", "s": sidx, "id": id, "res": "ok"})),
                    Err(remoc::rch::SendingError::Dropped) => tr(json!({"ev": "t_sending", "s": sidx, "id": id, "res": "dropped"})),
                    Err(remoc::rch::SendingError::Send(e)) => {
                        tr(json!({"ev": "t_sending", "s": sidx, "id": id, "res": "err", "kind": base_err(&e.kind)}))
                    }
                }
            }
            tr(json!({"ev": "t_closed_reason", "s": sidx, "reason": format!("{:?}", tx.closed_reason())}));
            tr(json!({"ev": "t_drop_tx", "s": sidx}));
        }));
    }
    drop(tx);
    let mut r2 = Rng::new(seed * 17 + 9);
    handles.push(spawn_d(2, async move {
        let mut got = 0u64;
        loop {
            yields(r2.below(14)).await;
            match rx.recv().await {
                Ok(Some(it)) => {
                    got += 1;
                    let eq = it.data == payload(it.id, it.data.len());
                    tr(json!({"ev": "t_recv", "r": "item", "id": it.id, "len": it.data.len(), "eq": eq}));
                    if let Some(ch) = it.chan {
                        let _ = ch.send(it.id);
                    }
                    if got == close_after {
                        tr(json!({"ev": "t_close"}));
                        rx.close();
                    }
                }
                Ok(None) => {
                    tr(json!({"ev": "t_recv", "r": "none"}));
                    break;
                }
                Err(e) => {
                    let fin = e.is_final();
                    tr(json!({"ev": "t_recv", "r": "err", "final": fin}));
                    if fin {
                        break;
                    }
                }
            }
        }
    }));
    if cut {
        yields(rng.range(20, 200)).await;
        tr(json!({"ev": "fault", "kind": "cut"}));
        for l in [&conn.ab, &conn.ba] {
            l.set(|st| {
                st.sink_err = true;
                st.stream_err = true;
            });
        }
    }
    let left = wait_tasks(&mut handles, &links, 4000).await;
    tr(json!({"ev": "t_end", "pending": left}));
    for h in handles {
        h.abort();
    }
    conn.pump.abort();
    for h in conn.conn {
        h.abort();
    }
    settle().await;
}
