//! Remote RwLock workload (C17): readers and writers on the owner's endpoint and on a remote endpoint
//! (cold and warm caches, several instances and clones), random hold times, commits and dropped write guards,
//! cancelled lock requests, optional loss of the remote holder's connection.

use super::*;
use remoc::robj::rw_lock::{Owner, RwLock};
use std::sync::atomic::{AtomicU64, Ordering};

static NEXT_VAL: AtomicU64 = AtomicU64::new(1);
static NEXT_OP: AtomicU64 = AtomicU64::new(1);

#[derive(Clone, Debug)]
pub struct RwOpts {
    pub remote: bool,
    pub cancel: bool,
    pub cut: bool,
    pub defer: u64,
    /// the connection is cut by the remote writer itself, immediately after one of its commits was confirmed
    pub cut_commit: bool,
}

async fn reader(rw: RwLock<u32>, ep: u64, inst: u64, n: u64, mut rng: Rng, cancel: bool) {
    for _ in 0..n {
        let op = NEXT_OP.fetch_add(1, Ordering::SeqCst);
        tr(json!({"ev": "rw_start", "op": op, "kind": "read", "ep": ep, "inst": inst}));
        let polls = if cancel && rng.chance(1, 6) { rng.range(1, 6) } else { u64::MAX };
        match cancel_after(rw.read(), polls).await {
            None => tr(json!({"ev": "rw_cancel", "op": op})),
            Some(Err(_)) => {
                tr(json!({"ev": "rw_err", "op": op}));
                return;
            }
            Some(Ok(g)) => {
                tr(json!({"ev": "rw_acq", "op": op, "value": *g}));
                yields(rng.below(12)).await;
                tr(json!({"ev": "rw_rel", "op": op}));
                drop(g);
            }
        }
        yields(rng.below(6)).await;
    }
}

static CUT_DONE: std::sync::atomic::AtomicBool = std::sync::atomic::AtomicBool::new(false);

async fn writer(rw: RwLock<u32>, ep: u64, inst: u64, n: u64, mut rng: Rng, cancel: bool, cut_links: Vec<Link>) {
    for _ in 0..n {
        let op = NEXT_OP.fetch_add(1, Ordering::SeqCst);
        tr(json!({"ev": "rw_start", "op": op, "kind": "write", "ep": ep, "inst": inst}));
        let polls = if cancel && rng.chance(1, 6) { rng.range(1, 8) } else { u64::MAX };
        match cancel_after(rw.write(), polls).await {
            None => tr(json!({"ev": "rw_cancel", "op": op})),
            Some(Err(_)) => {
                tr(json!({"ev": "rw_err", "op": op}));
                return;
            }
            Some(Ok(mut g)) => {
                tr(json!({"ev": "rw_acq", "op": op, "value": *g}));
                yields(rng.below(10)).await;
                if rng.chance(3, 4) {
                    let nv = NEXT_VAL.fetch_add(1, Ordering::SeqCst) as u32;
                    *g = nv;
                    tr(json!({"ev": "rw_commit_start", "op": op, "value": nv}));
                    let ok = g.commit().await.is_ok();
                    tr(json!({"ev": "rw_commit_done", "op": op, "ok": ok}));
                    if ok && ep != 1 && !cut_links.is_empty() && !CUT_DONE.swap(true, Ordering::SeqCst) {
                        // a confirmed commit is stored at the owner: losing the connection now must not lose it
                        tr(json!({"ev": "fault", "kind": "cut", "after_commit": op}));
                        for l in &cut_links {
                            l.set(|st| {
                                st.sink_err = true;
                                st.stream_err = true;
                            });
                        }
                    }
                } else {
                    tr(json!({"ev": "rw_drop", "op": op}));
                    drop(g);
                }
            }
        }
        yields(rng.below(6)).await;
    }
}

pub async fn scenario(seed: u64, opts: &RwOpts) {
    let mut rng = Rng::new(seed ^ 0x7A10C);
    NEXT_VAL.store(1, Ordering::SeqCst);
    NEXT_OP.store(1, Ordering::SeqCst);
    let (ca, cb) = (upper_cfg(&mut rng), upper_cfg(&mut rng));
    tr(json!({"ev": "reset", "seed": seed, "wl": "rwlock", "remote": opts.remote, "cut": opts.cut, "cfg": [ca.json(), cb.json()]}));
    install_spawn_policy(seed, opts.defer, 3);
    CUT_DONE.store(false, Ordering::SeqCst);
    let owner = Owner::new(0u32);
    let mut handles: Vec<tokio::task::JoinHandle<()>> = Vec::new();
    let mut links: Vec<Link> = Vec::new();
    let mut conn_keep = None;
    // instances: (lock, endpoint); every deserialized lock has its own cache, clones share it
    let mut insts: Vec<(RwLock<u32>, u64)> = vec![(owner.rw_lock(), 1)];
    if rng.chance(1, 2) {
        insts.push((owner.rw_lock(), 1));
    }
    if opts.remote {
        let mut conn = rem_connect::<RwLock<u32>, ()>(&ca, &cb, seed, 0).await;
        let k = rng.range(1, 2);
        for _ in 0..k {
            // send and receive concurrently: the encoded lock may exceed the receive buffer
            let (s, r) = tokio::join!(conn.a_tx.send(owner.rw_lock()), conn.b_rx.recv());
            s.ok().expect("send lock");
            let l = r.ok().expect("recv lock").expect("lock");
            insts.push((l, 2));
        }
        links = conn.links();
        conn_keep = Some(conn);
    }
    let nr = rng.range(2, 4);
    let nw = rng.range(1, 2);
    for i in 0..nr + nw {
        let (inst_idx, (rw, ep)) = {
            let mut k = rng.below(insts.len() as u64) as usize;
            if opts.cut_commit && i >= nr {
                // writers live on the remote endpoint in this variant
                if let Some(j) = insts.iter().position(|(_, e)| *e == 2) {
                    k = j;
                }
            }
            (k as u64, insts[k].clone())
        };
        let r = Rng::new(seed * 131 + i);
        let n = rng.range(2, 3);
        if i < nr {
            handles.push(spawn_d(ep, reader(rw, ep, inst_idx, n, r, opts.cancel)));
        } else {
            let cl = if opts.cut_commit && ep != 1 { links.clone() } else { Vec::new() };
            handles.push(spawn_d(ep, writer(rw, ep, inst_idx, n, r, opts.cancel, cl)));
        }
    }
    if opts.cut {
        if let Some(conn) = &conn_keep {
            yields(rng.range(5, 120)).await;
            tr(json!({"ev": "fault", "kind": "cut"}));
            conn.ab.set(|st| {
                st.sink_err = true;
                st.stream_err = true;
            });
            conn.ba.set(|st| {
                st.sink_err = true;
                st.stream_err = true;
            });
        }
    }
    let left = wait_tasks(&mut handles, &links, 4000).await;
    tr(json!({"ev": "rw_end", "pending": left}));
    if left > 0 {
        tr(json!({"ev": "quiescent", "pending": []}));
    }
    // the committed value survives on the owner
    if left == 0 {
        let op = NEXT_OP.fetch_add(1, Ordering::SeqCst);
        tr(json!({"ev": "rw_start", "op": op, "kind": "read", "ep": 1, "inst": 0}));
        let rw = owner.rw_lock();
        let mut h = vec![spawn_d(1, async move {
            if let Ok(g) = rw.read().await {
                tr(json!({"ev": "rw_acq", "op": op, "value": *g}));
                tr(json!({"ev": "rw_rel", "op": op}));
            }
        })];
        let l = wait_tasks(&mut h, &links, 4000).await;
        tr(json!({"ev": "rw_end", "pending": l, "final": true}));
    }
    for h in handles {
        h.abort();
    }
    drop(insts);
    drop(owner);
    if let Some(conn) = conn_keep {
        conn.pump.abort();
        for c in conn.conn {
            c.abort();
        }
    }
    settle().await;
}
