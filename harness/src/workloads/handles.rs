//! Handles and lazy values (C20).
//!
//! `handle` scenarios: a value with a logging destructor is stored behind a `Handle`; copies of the handle are
//! cloned, dropped, cast and sent between three endpoints (A - B - C, in both directions) along a seeded walk; at
//! every step a copy may be turned back into the value (`into_inner`, `as_ref`) at its original or at another type.
//! Only the origin, at the original type, before the value was taken, may get the value; the value must be
//! released once no copy is left or the provider is dropped.
//!
//! `lazy` scenarios: a `Lazy<Vec<u8>>` or `LazyBlob` of a size around chunk size and receive buffer is forwarded
//! over 1..3 connections and fetched at the far end, optionally while the first connection is cut.

use super::*;
use remoc::robj::{handle::Handle, lazy::Lazy, lazy_blob::LazyBlob};
use std::sync::atomic::{AtomicU64, Ordering};

/// `Clone` only satisfies the derive bound of `Handle: Clone`; the stored value itself is never cloned (a second
/// `v_drop` for the same id would show it).
#[derive(Clone)]
pub struct Tracked {
    pub id: u64,
}
impl Drop for Tracked {
    fn drop(&mut self) {
        tr(json!({"ev": "v_drop", "id": self.id}));
    }
}
pub struct Other {
    #[allow(dead_code)]
    pub x: u8,
}

static NEXT_COPY: AtomicU64 = AtomicU64::new(1);

type H = Handle<Tracked>;

struct Copy {
    id: u64,
    ep: usize,
    h: H,
}

fn res_str<T>(r: &Result<T, remoc::robj::handle::HandleError>) -> &'static str {
    match r {
        Ok(_) => "value",
        Err(remoc::robj::handle::HandleError::Unknown) => "unknown",
        Err(remoc::robj::handle::HandleError::MismatchedType(_)) => "mismatch",
    }
}

pub async fn handle_scenario(seed: u64, cut: bool) {
    let mut rng = Rng::new(seed ^ 0x4A7D);
    NEXT_COPY.store(1, Ordering::SeqCst);
    tr(json!({"ev": "reset", "seed": seed, "wl": "handle", "cut": cut}));
    install_spawn_policy(seed, 1, 4);
    // endpoints 0 (origin), 1, 2 ; conns[i] joins endpoint i and i+1, with a handle channel in each direction
    let mut conns: Vec<RemConn<H, H>> = Vec::new();
    let mut links = Vec::new();
    for i in 0..2u64 {
        let (ca, cb) = (upper_cfg(&mut rng), upper_cfg(&mut rng));
        let c = rem_connect::<H, H>(&ca, &cb, seed * 5 + i, i * 10).await;
        links.extend(c.links());
        conns.push(c);
    }
    let vid = 1000 + seed;
    let provided = rng.chance(1, 2);
    let (h0, mut provider) = if provided {
        let (h, p) = Handle::provided(Tracked { id: vid });
        (h, Some(p))
    } else {
        (Handle::new(Tracked { id: vid }), None)
    };
    tr(json!({"ev": "hd_new", "v": vid, "provided": provided, "copy": 1}));
    NEXT_COPY.store(2, Ordering::SeqCst);
    let mut copies = vec![Copy { id: 1, ep: 0, h: h0 }];
    let steps = rng.range(5, 14);
    for step in 0..steps {
        if copies.is_empty() {
            break;
        }
        let i = rng.below(copies.len() as u64) as usize;
        match rng.below(10) {
            0 | 1 => {
                let id = NEXT_COPY.fetch_add(1, Ordering::SeqCst);
                let c = Copy { id, ep: copies[i].ep, h: copies[i].h.clone() };
                tr(json!({"ev": "hd_clone", "from": copies[i].id, "copy": id, "ep": c.ep}));
                copies.push(c);
            }
            2 => {
                let c = copies.swap_remove(i);
                tr(json!({"ev": "hd_drop", "copy": c.id, "ep": c.ep}));
                drop(c);
            }
            3 | 4 | 5 => {
                // send to a neighbouring endpoint
                let c = copies.swap_remove(i);
                let to = match c.ep {
                    0 => 1,
                    2 => 1,
                    _ => {
                        if rng.chance(1, 2) { 0 } else { 2 }
                    }
                };
                tr(json!({"ev": "hd_send", "copy": c.id, "from": c.ep, "to": to}));
                let ci = c.ep.min(to);
                let conn = &mut conns[ci];
                let r = if to > c.ep { xfer(&mut conn.a_tx, &mut conn.b_rx, c.h).await } else { xfer(&mut conn.b_tx, &mut conn.a_rx, c.h).await };
                match r {
                    Some(h) => {
                        tr(json!({"ev": "hd_arrived", "copy": c.id, "ep": to}));
                        copies.push(Copy { id: c.id, ep: to, h });
                    }
                    None => tr(json!({"ev": "hd_lost", "copy": c.id})),
                }
            }
            6 => {
                let r = copies[i].h.as_ref().await;
                let seen = r.as_ref().map(|v| v.id as i64).unwrap_or(-1);
                tr(json!({"ev": "hd_res", "op": "as_ref", "copy": copies[i].id, "ep": copies[i].ep, "res": res_str(&r), "seen": seen}));
            }
            7 => {
                let c = copies.swap_remove(i);
                let r = c.h.into_inner().await;
                let seen = r.as_ref().map(|v| v.id as i64).unwrap_or(-1);
                tr(json!({"ev": "hd_res", "op": "into_inner", "copy": c.id, "ep": c.ep, "res": res_str(&r), "seen": seen}));
                // the value (if any) now belongs to the caller, who drops it here
                drop(r);
            }
            8 => {
                // access at another type
                let c = copies.swap_remove(i);
                let other: Handle<Other> = c.h.cast();
                let r = other.as_ref().await;
                tr(json!({"ev": "hd_res", "op": "cast_as_ref", "copy": c.id, "ep": c.ep, "res": res_str(&r), "seen": -1}));
                drop(r);
                let back: H = other.cast();
                copies.push(Copy { id: c.id, ep: c.ep, h: back });
            }
            _ => {
                if let Some(p) = provider.take() {
                    if rng.chance(1, 2) {
                        tr(json!({"ev": "hd_provider_drop"}));
                        drop(p);
                    } else {
                        provider = Some(p);
                    }
                }
            }
        }
        yields(rng.below(8)).await;
        if cut && step == steps / 2 {
            tr(json!({"ev": "fault", "kind": "cut"}));
            for l in links.iter().take(2) {
                l.set(|st| {
                    st.sink_err = true;
                    st.stream_err = true;
                });
            }
        }
    }
    // drop whatever is left, one copy after the other
    for c in copies.drain(..) {
        tr(json!({"ev": "hd_drop", "copy": c.id, "ep": c.ep}));
        drop(c);
        yields(rng.below(5)).await;
    }
    // a provider that is still around is dropped now in half of the cases; otherwise it stays alive beyond the end
    // of the scenario and the value has to be released because no handle is left anywhere
    let keep_provider = rng.chance(1, 2);
    if !keep_provider {
        if let Some(p) = provider.take() {
            tr(json!({"ev": "hd_provider_drop"}));
            drop(p);
        }
    }
    // the release travels over the connections: wait for quiescence
    let mut none: Vec<tokio::task::JoinHandle<()>> = vec![spawn_d(1, async { yields(600).await })];
    let _ = wait_tasks(&mut none, &links, 3000).await;
    tr(json!({"ev": "hd_end", "provider_alive": provider.is_some()}));
    drop(provider);
    for c in conns {
        c.pump.abort();
        for h in c.conn {
            h.abort();
        }
    }
    settle().await;
}

fn pat(i: usize) -> u8 {
    ((i * 13 + (i >> 7) * 5 + 3) % 251) as u8
}

pub async fn lazy_scenario(seed: u64, cut: bool) {
    let mut rng = Rng::new(seed ^ 0x1A27);
    let hops = rng.range(1, 3);
    let blob = rng.chance(1, 2);
    let mut cfgs = Vec::new();
    for _ in 0..hops {
        cfgs.push((upper_cfg(&mut rng), upper_cfg(&mut rng)));
    }
    let (chunk, rbuf) = (cfgs[0].0.chunk as usize, cfgs[0].0.rbuf as usize);
    let len = match rng.below(8) {
        0 => 0,
        1 => 1,
        2 => chunk.saturating_sub(1),
        3 => chunk,
        4 => chunk + 1,
        5 => rbuf,
        6 => rbuf + 1,
        _ => rng.range(1, 3 * rbuf.min(1500) as u64) as usize,
    };
    let provider_drop = rng.chance(1, 8);
    tr(json!({"ev": "reset", "seed": seed, "wl": "lazy", "cut": cut, "hops": hops, "kind": if blob { "blob" } else { "lazy" }, "len": len,
              "provider_drop": provider_drop}));
    install_spawn_policy(seed, 1, 4);
    let data: Vec<u8> = (0..len).map(pat).collect();
    let mut links = Vec::new();
    let mut handles: Vec<tokio::task::JoinHandle<()>> = Vec::new();
    let far = hops + 1;
    if blob {
        let mut conns: Vec<RemConn<LazyBlob, ()>> = Vec::new();
        for (h, (ca, cb)) in cfgs.iter().enumerate() {
            let c = rem_connect::<LazyBlob, ()>(ca, cb, seed * 3 + h as u64, h as u64 * 10).await;
            links.extend(c.links());
            conns.push(c);
        }
        let (lb, provider) = LazyBlob::provided(Bytes::from(data.clone()));
        tr(json!({"ev": "lz_new", "len": len}));
        let mut cur = Some(lb);
        for (h, c) in conns.iter_mut().enumerate() {
            match xfer(&mut c.a_tx, &mut c.b_rx, cur.take().unwrap()).await {
                Some(x) => cur = Some(x),
                None => {
                    tr(json!({"ev": "lz_lost", "hop": h + 1}));
                    break;
                }
            }
        }
        if provider_drop {
            tr(json!({"ev": "lz_provider_drop"}));
            drop(provider);
        } else {
            provider.keep();
        }
        if let Some(lb) = cur {
            let announced = lb.len().map(|l| l as i64).unwrap_or(-1);
            tr(json!({"ev": "lz_fetch", "ep": far, "announced": announced}));
            handles.push(spawn_d(far, async move {
                match lb.get().await {
                    Ok(buf) => {
                        let v = Vec::<u8>::from(buf);
                        let good = v.iter().enumerate().all(|(i, b)| *b == pat(i));
                        tr(json!({"ev": "lz_res", "ok": true, "len": v.len(), "match": good}));
                    }
                    Err(e) => tr(json!({"ev": "lz_res", "ok": false, "kind": format!("{e:?}").split('(').next().unwrap_or("").to_string()})),
                }
            }));
        }
        if cut {
            yields(rng.range(1, 60)).await;
            tr(json!({"ev": "fault", "kind": "cut"}));
            for l in links.iter().take(2) {
                l.set(|st| {
                    st.sink_err = true;
                    st.stream_err = true;
                });
            }
        }
        let left = wait_tasks(&mut handles, &links, 4000).await;
        tr(json!({"ev": "lz_end", "pending": left}));
        for h in handles {
            h.abort();
        }
        for c in conns {
            c.pump.abort();
            for h in c.conn {
                h.abort();
            }
        }
    } else {
        let mut conns: Vec<RemConn<Lazy<Vec<u8>>, ()>> = Vec::new();
        for (h, (ca, cb)) in cfgs.iter().enumerate() {
            let c = rem_connect::<Lazy<Vec<u8>>, ()>(ca, cb, seed * 3 + h as u64, h as u64 * 10).await;
            links.extend(c.links());
            conns.push(c);
        }
        let (lz, provider) = Lazy::provided(data.clone());
        tr(json!({"ev": "lz_new", "len": len}));
        let mut cur = Some(lz);
        for (h, c) in conns.iter_mut().enumerate() {
            match xfer(&mut c.a_tx, &mut c.b_rx, cur.take().unwrap()).await {
                Some(x) => cur = Some(x),
                None => {
                    tr(json!({"ev": "lz_lost", "hop": h + 1}));
                    break;
                }
            }
        }
        if provider_drop {
            tr(json!({"ev": "lz_provider_drop"}));
            drop(provider);
        } else {
            provider.keep();
        }
        if let Some(lz) = cur {
            tr(json!({"ev": "lz_fetch", "ep": far, "announced": -1}));
            handles.push(spawn_d(far, async move {
                match lz.get().await {
                    Ok(v) => {
                        let good = v.iter().enumerate().all(|(i, b)| *b == pat(i));
                        tr(json!({"ev": "lz_res", "ok": true, "len": v.len(), "match": good}));
                        // a second get returns the same value without fetching again
                        let again = lz.get().await.map(|w| w.len() == v.len()).unwrap_or(false);
                        tr(json!({"ev": "lz_again", "same": again}));
                    }
                    Err(e) => tr(json!({"ev": "lz_res", "ok": false, "kind": format!("{e:?}").split('(').next().unwrap_or("").to_string()})),
                }
            }));
        }
        if cut {
            yields(rng.range(1, 60)).await;
            tr(json!({"ev": "fault", "kind": "cut"}));
            for l in links.iter().take(2) {
                l.set(|st| {
                    st.sink_err = true;
                    st.stream_err = true;
                });
            }
        }
        let left = wait_tasks(&mut handles, &links, 4000).await;
        tr(json!({"ev": "lz_end", "pending": left}));
        for h in handles {
            h.abort();
        }
        for c in conns {
            c.pump.abort();
            for h in c.conn {
                h.abort();
            }
        }
    }
    settle().await;
}
