//! Scripted peer (C08, C09): the harness itself is the remote endpoint and speaks raw frames, benign or hostile,
//! to one real endpoint A whose local users stay passive (nothing is received, accepted or dropped).

use super::*;
use remoc::chmux::{ChMux, Receiver, Sender};

/// Independent little encoder for the frames the scripted peer sends (layout of protocol version 3).
pub mod enc {
    pub fn u32le(n: u32) -> [u8; 4] {
        n.to_le_bytes()
    }
    pub fn hello(version: u8, timeout_ms: u64, chunk: u32, rbuf: u32, cq: u16) -> Vec<u8> {
        let mut v = vec![2u8];
        v.extend_from_slice(b"CHMUX\0");
        v.push(version);
        v.extend_from_slice(&timeout_ms.to_le_bytes());
        v.extend_from_slice(&chunk.to_le_bytes());
        v.extend_from_slice(&rbuf.to_le_bytes());
        v.extend_from_slice(&cq.to_le_bytes());
        v
    }
    pub fn open_port(client: u32, wait: bool, id: Option<u32>) -> Vec<u8> {
        let mut v = vec![4u8];
        v.extend_from_slice(&u32le(client));
        v.push((wait as u8) | ((id.is_some() as u8) << 1));
        if let Some(id) = id {
            v.extend_from_slice(&u32le(id));
        }
        v
    }
    pub fn port_opened(client: u32, server: u32) -> Vec<u8> {
        let mut v = vec![5u8];
        v.extend_from_slice(&u32le(client));
        v.extend_from_slice(&u32le(server));
        v
    }
    pub fn rejected(client: u32, no_ports: bool) -> Vec<u8> {
        let mut v = vec![6u8];
        v.extend_from_slice(&u32le(client));
        v.push(no_ports as u8);
        v
    }
    pub fn data(port: u32, first: bool, last: bool) -> Vec<u8> {
        let mut v = vec![7u8];
        v.extend_from_slice(&u32le(port));
        v.push((first as u8) | ((last as u8) << 1));
        v
    }
    pub fn port_data(port: u32, first: bool, last: bool, wait: bool, ports: &[u32], ids: Option<&[u32]>) -> Vec<u8> {
        let mut v = vec![8u8];
        v.extend_from_slice(&u32le(port));
        v.push((first as u8) | ((last as u8) << 1) | ((wait as u8) << 2) | ((ids.is_some() as u8) << 3));
        for (i, p) in ports.iter().enumerate() {
            v.extend_from_slice(&u32le(*p));
            if let Some(ids) = ids {
                v.extend_from_slice(&u32le(ids[i]));
            }
        }
        v
    }
    pub fn port_msg(code: u8, port: u32) -> Vec<u8> {
        let mut v = vec![code];
        v.extend_from_slice(&u32le(port));
        v
    }
    pub fn credits(port: u32, credits: u32) -> Vec<u8> {
        let mut v = vec![9u8];
        v.extend_from_slice(&u32le(port));
        v.extend_from_slice(&u32le(credits));
        v
    }
}

type ConnRes = Result<(Sender, Receiver), &'static str>;

pub async fn scenario(seed: u64, hostile: bool) {
    let mut rng = Rng::new(seed ^ 0x9EE2);
    let mut cfg_a = EpCfg::small(&mut rng);
    cfg_a.connect_q = rng.range(1, 3) as u16;
    let peer_version = if rng.chance(1, 3) { 2u8 } else { 3u8 };
    let peer_chunk = rng.range(4, 9) as u32;
    let peer_rbuf = rng.range(4, 16) as u32;
    let peer_cq = rng.range(1, 3) as u16;
    let mut pj = cfg_a.json();
    pj["chunk"] = json!(peer_chunk);
    pj["rbuf"] = json!(peer_rbuf);
    pj["connect_q"] = json!(peer_cq);
    pj["version"] = json!(peer_version);
    tr(json!({"ev": "reset", "seed": seed, "wl": "peer", "cfg": [cfg_a.json(), pj], "hostile": hostile}));
    install_spawn_policy(seed, 1, 4);

    let (ab, ba) = link_pair();
    let (a_sink, _peer_stream) = ab.halves();
    let (_peer_sink, a_stream) = ba.halves();
    // handshake: junk before Hello is ignored, then the peer's Hello
    if rng.chance(1, 2) {
        peer_send(&ba, vec![1], false);
    }
    if hostile && rng.chance(1, 3) {
        peer_send(&ba, vec![200, 1, 2], false);
    }
    peer_send(&ba, enc::hello(peer_version, 0, peer_chunk, peer_rbuf, peer_cq), false);
    let new = Labeled::new(1, ChMux::new(cfg_a.to_cfg(), a_sink, a_stream));
    let (mux, client, listener) = match new.await {
        Ok(x) => x,
        Err(e) => {
            tr(json!({"ev": "new_failed", "err": mux_err_class(&Err(e))}));
            return;
        }
    };
    tr(json!({"ev": "handshake_done"}));
    let mut run = Some(tokio::spawn(remoc::verif::Deferred::new(Labeled::new(1, mux.run()))));
    settle().await;

    // what the peer knows about A's ports
    let mut connecting: Vec<u32> = Vec::new();
    let mut connected: Vec<u32> = Vec::new(); // A's local port numbers of connected ports
    let mut requested: Vec<u32> = Vec::new(); // client ports of the peer's own open requests
    let mut next_server = 0x1000u32;
    // the benign peer's own bookkeeping, so that conforming steps really conform
    let mut used: std::collections::HashMap<u32, u32> = std::collections::HashMap::new();
    let mut fin: std::collections::HashSet<u32> = std::collections::HashSet::new();
    let mut rclosed: std::collections::HashSet<u32> = std::collections::HashSet::new();
    let mut ops: Vec<Op<ConnRes>> = Vec::new();
    let mut kept: Vec<(Sender, Receiver)> = Vec::new();
    let mut port_senders: Vec<tokio::task::JoinHandle<()>> = Vec::new();
    let mut next_op = 1u64;
    let mut a_frames = 0usize;
    let mut ended = false;

    let steps = rng.range(6, 24);
    for step in 0..steps {
        // ---- local connects of A (early steps)
        if step < 4 && ops.len() + kept.len() < 3 && rng.chance(1, 2) {
            let id = next_op;
            next_op += 1;
            let c = client.clone();
            let wait = rng.chance(1, 2);
            tr(json!({"ev": "api_start", "op": id, "ep": 1, "kind": "client_connect", "wait": wait}));
            ops.push(Op::new(id, 1, async move {
                match c.connect_ext(None, wait).await {
                    Ok(conn) => conn.await.map_err(|_| "err"),
                    Err(_) => Err("err"),
                }
            }));
        }
        poll_ops(&mut ops, &mut kept);
        // ---- a local user of A sends port requests over an established port (PortData emitted by A)
        if !kept.is_empty() && port_senders.len() < 2 && rng.chance(1, 3) {
            let (mut tx, rx) = kept.swap_remove(rng.below(kept.len() as u64) as usize);
            let n = rng.range(1, 2);
            let wait = rng.chance(1, 2);
            tr(json!({"ev": "a_send_ports", "local": p32(tx.local_port()), "n": n, "wait": wait}));
            port_senders.push(spawn_d(1, async move {
                let alloc = tx.port_allocator();
                let mut reqs = Vec::new();
                for k in 0..n {
                    if let Some(p) = alloc.try_allocate() {
                        reqs.push(chmux::PortReq::new(p).with_id(700 + k as u32));
                    }
                }
                let _connects = tx.connect(reqs, wait).await;
                // keep the port and the pending requests alive until the scenario ends
                futures::future::pending::<()>().await;
                drop(rx);
            }));
        }
        settle().await;
        // ---- read what A emitted
        while let Some(f) = ab.take_out() {
            a_frames += 1;
            if f.first() == Some(&4) && f.len() >= 5 {
                connecting.push(u32::from_le_bytes([f[1], f[2], f[3], f[4]]));
            }
        }
        // ---- the peer sends one frame
        // mostly protocol-conforming traffic; a hostile peer misbehaves in a quarter of its steps
        let evil = hostile && rng.chance(1, 4);
        let pick_port = |rng: &mut Rng, connecting: &Vec<u32>, connected: &Vec<u32>| -> u32 {
            match rng.below(if evil { 6 } else { 3 }) {
                0 | 1 | 2 if !connected.is_empty() => *rng.pick(connected),
                3 if !connecting.is_empty() => *rng.pick(connecting),
                4 => 0xDEAD_0000 + rng.below(4) as u32,
                _ if !connected.is_empty() => *rng.pick(connected),
                _ => 0xDEAD_0000,
            }
        };
        let kind = if evil { rng.below(16) } else { rng.below(9) };
        match kind {
            0 | 1 if !connecting.is_empty() => {
                let i = rng.below(connecting.len() as u64) as usize;
                let c = connecting.swap_remove(i);
                if rng.chance(3, 4) {
                    next_server += 1;
                    peer_send(&ba, enc::port_opened(c, next_server), false);
                    connected.push(c);
                } else {
                    peer_send(&ba, enc::rejected(c, rng.chance(1, 2)), false);
                }
            }
            2 => {
                let c = 0x2000 + rng.below(if evil { 3 } else { 64 }) as u32 + if evil { 0 } else { requested.len() as u32 * 64 };
                requested.push(c);
                let id = if peer_version >= 3 { Some(c) } else { None };
                peer_send(&ba, enc::open_port(c, rng.chance(1, 2), id), false);
            }
            3 | 4 => {
                let p = pick_port(&mut rng, &connecting, &connected);
                let len = match rng.below(if evil { 5 } else { 3 }) {
                    0 => 0,
                    1 => 1,
                    2 => cfg_a.chunk as usize,
                    3 => cfg_a.chunk as usize + 1,
                    _ => cfg_a.rbuf as usize,
                };
                let cost = (len as u32).max(1);
                let u = used.entry(p).or_insert(0);
                if !evil && (fin.contains(&p) || *u + cost > cfg_a.rbuf || !connected.contains(&p)) {
                    peer_send(&ba, vec![3], false);
                } else {
                    *u += cost;
                    peer_send(&ba, enc::data(p, rng.chance(1, 2), rng.chance(1, 2)), false);
                    peer_send(&ba, vec![0xAB; len], true);
                }
            }
            5 => {
                let p = pick_port(&mut rng, &connecting, &connected);
                let mut n = rng.below(3) as usize;
                if !evil {
                    let u = used.entry(p).or_insert(0);
                    while n > 0 && (4 * n as u32 > cfg_a.chunk || *u + 4 * n as u32 > cfg_a.rbuf) {
                        n -= 1;
                    }
                    if fin.contains(&p) || !connected.contains(&p) {
                        n = 0;
                    }
                    *u += 4 * n as u32;
                }
                if !evil && (fin.contains(&p) || !connected.contains(&p)) {
                    peer_send(&ba, vec![3], false);
                    continue;
                }
                let ports: Vec<u32> = (0..n).map(|_| 0x3000 + rng.below(if evil { 4 } else { 100_000 }) as u32).collect();
                let ids: Vec<u32> = ports.clone();
                peer_send(&ba, enc::port_data(p, true, true, rng.chance(1, 2), &ports, if peer_version >= 3 { Some(&ids) } else { None }), false);
            }
            6 => {
                let p = pick_port(&mut rng, &connecting, &connected);
                let c = if evil && rng.chance(1, 3) { u32::MAX } else { rng.range(1, 5) as u32 };
                if evil || connected.contains(&p) {
                    peer_send(&ba, enc::credits(p, c), false);
                } else {
                    peer_send(&ba, vec![3], false);
                }
            }
            7 => peer_send(&ba, vec![3], false),
            8 => {
                let p = pick_port(&mut rng, &connecting, &connected);
                let code = 10 + rng.below(3) as u8;
                let legal = connected.contains(&p)
                    && match code {
                        10 => fin.insert(p),
                        11 => !rclosed.contains(&p) && rclosed.insert(p),
                        _ => {
                            rclosed.insert(p);
                            true
                        }
                    };
                if evil || legal {
                    peer_send(&ba, enc::port_msg(code, p), false);
                } else {
                    peer_send(&ba, vec![3], false);
                }
            }
            9 => peer_send(&ba, vec![13], false),
            10 => peer_send(&ba, vec![14], false),
            11 => peer_send(&ba, vec![rng.range(16, 255) as u8, 1, 2, 3], false),
            12 => {
                // truncated frame of a random kind
                let full = enc::credits(pick_port(&mut rng, &connecting, &connected), 1);
                let cut = rng.range(1, full.len() as u64 - 1) as usize;
                peer_send(&ba, full[..cut].to_vec(), false);
            }
            13 => peer_send(&ba, enc::hello(3, 0, 8, 8, 1), false),
            14 => peer_send(&ba, vec![if rng.chance(1, 2) { 1 } else { 15 }], false),
            _ => {
                if !connecting.is_empty() {
                    // PortOpened for a port that is already connected / unknown
                    let p = pick_port(&mut rng, &connecting, &connected);
                    peer_send(&ba, enc::port_opened(p, 0x1FFF), false);
                } else {
                    peer_send(&ba, vec![3], false);
                }
            }
        }
        for _ in 0..3 {
            settle().await;
        }
        poll_ops(&mut ops, &mut kept);
        if run.as_ref().is_some_and(|h| h.is_finished()) {
            ended = true;
            break;
        }
    }
    for _ in 0..20 {
        settle().await;
        poll_ops(&mut ops, &mut kept);
    }
    while ab.take_out().is_some() {
        a_frames += 1;
    }
    if let Some(h) = run.take() {
        if h.is_finished() {
            ended = true;
            let res = h.await;
            let class = match &res {
                Ok(r) => mux_err_class(r),
                Err(e) if e.is_panic() => "panic",
                Err(_) => "aborted",
            };
            tr(json!({"ev": "run_end", "ep": 1, "res": class}));
        } else {
            run = Some(h);
        }
    }
    for _ in 0..10 {
        settle().await;
        poll_ops(&mut ops, &mut kept);
    }
    let pending: Vec<u64> = ops.iter().map(|o| o.id).collect();
    tr(json!({"ev": "peer_end", "running": !ended, "pending": pending, "a_frames": a_frames}));
    drop(ops);
    drop(kept);
    for h in port_senders {
        h.abort();
    }
    drop(client);
    drop(listener);
    if let Some(h) = run {
        h.abort();
    }
    settle().await;
}

fn peer_send(ba: &Link, b: Vec<u8>, payload: bool) {
    tr(json!({"ev": "peer_send", "b": bytes_json(&b[..b.len().min(64)]), "len": b.len(), "payload": payload}));
    ba.inject(Bytes::from(b));
}

fn poll_ops(ops: &mut Vec<Op<ConnRes>>, kept: &mut Vec<(Sender, Receiver)>) {
    let mut i = 0;
    while i < ops.len() {
        if ops[i].runnable() {
            let id = ops[i].id;
            match ops[i].poll() {
                Polled::Ready(Ok((tx, rx))) => {
                    tr(json!({"ev": "api_done", "op": id, "res": "ok", "local": p32(tx.local_port()), "remote": p32(tx.remote_port())}));
                    kept.push((tx, rx));
                    ops.swap_remove(i);
                }
                Polled::Ready(Err(e)) => {
                    tr(json!({"ev": "api_done", "op": id, "res": "err", "err": e}));
                    ops.swap_remove(i);
                }
                Polled::Pending => i += 1,
                Polled::Panicked => {
                    tr(json!({"ev": "api_panic", "op": id}));
                    ops.swap_remove(i);
                }
            }
        } else {
            i += 1;
        }
    }
}


/// Executes one TLC-generated behaviour of ChmuxPeerGen against a real endpoint (specification -> implementation).
pub async fn script_scenario(idx: u64, script: &serde_json::Value) {
    let c = &script["cfg"];
    let mut rng = Rng::new(idx ^ 0x5C21);
    let mut cfg_a = EpCfg::small(&mut rng);
    cfg_a.chunk = c["chunk"].as_u64().unwrap_or(4) as u32;
    cfg_a.rbuf = c["rbuf"].as_u64().unwrap_or(6) as u32;
    cfg_a.connect_q = c["cq"].as_u64().unwrap_or(1) as u16;
    let mut pj = cfg_a.json();
    pj["version"] = json!(3);
    tr(json!({"ev": "reset", "seed": idx, "wl": "peer_script", "cfg": [cfg_a.json(), pj], "script": script["steps"]}));
    install_spawn_policy(idx, 1, 4);
    let (ab, ba) = link_pair();
    let (a_sink, _peer_stream) = ab.halves();
    let (_peer_sink, a_stream) = ba.halves();
    peer_send(&ba, enc::hello(3, 0, 8, 8, 2), false);
    let new = Labeled::new(1, ChMux::new(cfg_a.to_cfg(), a_sink, a_stream));
    let (mux, client, listener) = match new.await {
        Ok(x) => x,
        Err(e) => {
            tr(json!({"ev": "new_failed", "err": mux_err_class(&Err(e))}));
            return;
        }
    };
    tr(json!({"ev": "handshake_done"}));
    let mut run = Some(tokio::spawn(remoc::verif::Deferred::new(Labeled::new(1, mux.run()))));
    settle().await;
    let mut map: std::collections::HashMap<u64, u32> = std::collections::HashMap::new();
    let mut ops: Vec<Op<ConnRes>> = Vec::new();
    let mut kept: Vec<(Sender, Receiver)> = Vec::new();
    let mut next_op = 1u64;
    let mut ended = false;
    let port_of = |map: &std::collections::HashMap<u64, u32>, p: u64| -> u32 { map.get(&p).copied().unwrap_or(0xDEAD_0000 + p as u32) };
    let empty = Vec::new();
    for step in script["steps"].as_array().unwrap_or(&empty) {
        if step.get("local").is_some() {
            let p = step["p"].as_u64().unwrap_or(0);
            let id = next_op;
            next_op += 1;
            let cl = client.clone();
            tr(json!({"ev": "api_start", "op": id, "ep": 1, "kind": "client_connect", "wait": true}));
            ops.push(Op::new(id, 1, async move {
                match cl.connect_ext(None, true).await {
                    Ok(conn) => conn.await.map_err(|_| "err"),
                    Err(_) => Err("err"),
                }
            }));
            for _ in 0..8 {
                poll_ops(&mut ops, &mut kept);
                settle().await;
                if let Some(f) = ab.take_out() {
                    if f.first() == Some(&4) && f.len() >= 5 {
                        map.insert(p, u32::from_le_bytes([f[1], f[2], f[3], f[4]]));
                        break;
                    }
                }
            }
        } else {
            let f = &step["frame"];
            let k = f["k"].as_str().unwrap_or("");
            let expect = step["v"].as_str().unwrap_or("");
            tr(json!({"ev": "expect", "v": expect}));
            let pnum = |key: &str| port_of(&map, f[key].as_u64().unwrap_or(0));
            match k {
                "Bad" => peer_send(&ba, vec![200, 1, 2], false),
                "Reset" => peer_send(&ba, vec![1], false),
                "Hello" => peer_send(&ba, enc::hello(3, 0, 8, 8, 1), false),
                "Ping" => peer_send(&ba, vec![3], false),
                "ClientFinish" => peer_send(&ba, vec![13], false),
                "ListenerFinish" => peer_send(&ba, vec![14], false),
                "Goodbye" => peer_send(&ba, vec![15], false),
                "OpenPort" => {
                    let cport = 0x2000 + f["client"].as_u64().unwrap_or(0) as u32;
                    peer_send(&ba, enc::open_port(cport, f["wait"].as_bool().unwrap_or(false), Some(cport)), false)
                }
                "PortOpened" => peer_send(&ba, enc::port_opened(pnum("client"), 0x1000 + f["server"].as_u64().unwrap_or(0) as u32), false),
                "Rejected" => peer_send(&ba, enc::rejected(pnum("client"), false), false),
                "Data" => {
                    peer_send(&ba, enc::data(pnum("port"), true, true), false);
                    peer_send(&ba, vec![0xCD; f["len"].as_u64().unwrap_or(0) as usize], true);
                }
                "PortData" => {
                    let ports: Vec<u32> = f["ports"].as_array().map(|a| a.iter().map(|x| 0x2000 + x.as_u64().unwrap_or(0) as u32).collect()).unwrap_or_default();
                    let ids = ports.clone();
                    peer_send(&ba, enc::port_data(pnum("port"), true, true, false, &ports, Some(&ids)), false);
                }
                "PortCredits" => {
                    let cr = f["credits"].as_u64().unwrap_or(1);
                    peer_send(&ba, enc::credits(pnum("port"), if cr > 1000 { u32::MAX } else { cr as u32 }), false);
                }
                "SendFinish" => peer_send(&ba, enc::port_msg(10, pnum("port")), false),
                "ReceiveClose" => peer_send(&ba, enc::port_msg(11, pnum("port")), false),
                "ReceiveFinish" => peer_send(&ba, enc::port_msg(12, pnum("port")), false),
                _ => {}
            }
            for _ in 0..3 {
                settle().await;
            }
            poll_ops(&mut ops, &mut kept);
            while ab.take_out().is_some() {}
        }
        if run.as_ref().is_some_and(|h| h.is_finished()) {
            ended = true;
            break;
        }
    }
    for _ in 0..20 {
        settle().await;
        poll_ops(&mut ops, &mut kept);
    }
    while ab.take_out().is_some() {}
    if let Some(h) = run.take() {
        if h.is_finished() {
            ended = true;
            let res = h.await;
            let class = match &res {
                Ok(r) => mux_err_class(r),
                Err(e) if e.is_panic() => "panic",
                Err(_) => "aborted",
            };
            tr(json!({"ev": "run_end", "ep": 1, "res": class}));
        } else {
            run = Some(h);
        }
    }
    for _ in 0..10 {
        settle().await;
        poll_ops(&mut ops, &mut kept);
    }
    let pending: Vec<u64> = ops.iter().map(|o| o.id).collect();
    tr(json!({"ev": "peer_end", "running": !ended, "pending": pending, "a_frames": 0}));
    drop(ops);
    drop(kept);
    drop(client);
    drop(listener);
    if let Some(h) = run {
        h.abort();
    }
    settle().await;
}
