//! Remote trait calling workload (C12, C19): one target object (a counter with a read-modify-write across a
//! suspension point), served by one of the generated server flavours; several clients (clones, local and remote)
//! issue a seeded mix of by-reference / by-mutable-reference / by-value calls, some abandoned after k polls, some
//! non-cancellable, some hanging until abandoned, some with an undecodable request, an unknown method (client of a
//! newer trait version) or an oversized reply.  Every execution step inside the target is logged with the call id.

use super::*;
use remoc::rtc::{CallError, Client as _};
use serde::{Deserialize, Serialize};
use std::sync::atomic::{AtomicU32, Ordering};

/// Argument whose deserialization fails when `poison` is set (an undecodable request).
#[derive(Debug, Clone, Serialize)]
pub struct Picky {
    pub poison: bool,
}
impl<'de> Deserialize<'de> for Picky {
    fn deserialize<D: serde::Deserializer<'de>>(d: D) -> Result<Self, D::Error> {
        #[derive(Deserialize)]
        struct P {
            poison: bool,
        }
        let p = P::deserialize(d)?;
        if p.poison {
            return Err(serde::de::Error::custom("undecodable request"));
        }
        Ok(Picky { poison: false })
    }
}

/// Logs `x_drop` when an execution is abandoned before it finished.
struct ExecGuard {
    call: u32,
    done: bool,
}
impl ExecGuard {
    fn start(call: u32, m: &str, val: u64) -> Self {
        tr(json!({"ev": "x_start", "call": call, "m": m, "val": val}));
        ExecGuard { call, done: false }
    }
    fn end(mut self, m: &str, before: u64, after: u64, ret: u64) {
        self.done = true;
        tr(json!({"ev": "x_end", "call": self.call, "m": m, "before": before, "after": after, "ret": ret}));
    }
}
impl Drop for ExecGuard {
    fn drop(&mut self) {
        if !self.done {
            tr(json!({"ev": "x_drop", "call": self.call}));
        }
    }
}

pub mod v1 {
    use super::*;

    #[remoc::rtc::remote(clone)]
    pub trait Counter: Send + Sync {
        async fn get(&self, call: u32, steps: u32) -> Result<u64, CallError>;
        async fn add(&mut self, call: u32, k: u64, steps: u32) -> Result<u64, CallError>;
        #[no_cancel]
        async fn add_nc(&mut self, call: u32, k: u64, steps: u32) -> Result<u64, CallError>;
        async fn hang(&mut self, call: u32) -> Result<u64, CallError>;
        async fn hang_ref(&self, call: u32) -> Result<u64, CallError>;
        async fn big(&self, call: u32, size: u32) -> Result<Vec<u8>, CallError>;
        async fn picky(&self, call: u32, arg: Picky) -> Result<u64, CallError>;
        /// A method with a default body (composed of other trait methods); the target overrides it.  Wherever the
        /// default body runs, it is not the target's method.
        async fn bump(&mut self, call: u32, k: u64) -> Result<u64, CallError> {
            self.add(call, k, 0).await?;
            self.add(call, k, 0).await
        }
    }
}

/// A newer version of the trait: its client knows a method the (v1) server does not.
pub mod v2 {
    use super::*;

    #[remoc::rtc::remote(clone)]
    pub trait Counter: Send + Sync {
        async fn get(&self, call: u32, steps: u32) -> Result<u64, CallError>;
        async fn add(&mut self, call: u32, k: u64, steps: u32) -> Result<u64, CallError>;
        #[no_cancel]
        async fn add_nc(&mut self, call: u32, k: u64, steps: u32) -> Result<u64, CallError>;
        async fn hang(&mut self, call: u32) -> Result<u64, CallError>;
        async fn hang_ref(&self, call: u32) -> Result<u64, CallError>;
        async fn big(&self, call: u32, size: u32) -> Result<Vec<u8>, CallError>;
        async fn picky(&self, call: u32, arg: Picky) -> Result<u64, CallError>;
        async fn bump(&mut self, call: u32, k: u64) -> Result<u64, CallError> {
            self.add(call, k, 0).await?;
            self.add(call, k, 0).await
        }
        async fn extra(&self, call: u32) -> Result<u64, CallError>;
    }
}

/// Trait with a by-value method (served by the by-value server only).
pub mod once {
    use super::*;

    #[remoc::rtc::remote]
    pub trait Taker {
        async fn get(&self, call: u32, steps: u32) -> Result<u64, CallError>;
        async fn add(&mut self, call: u32, k: u64, steps: u32) -> Result<u64, CallError>;
        async fn take(self, call: u32, steps: u32) -> Result<u64, CallError>;
        async fn take_hang(self, call: u32) -> Result<u64, CallError>;
    }
}

pub struct Obj {
    val: u64,
}

async fn do_get(val: &u64, call: u32, steps: u32) -> u64 {
    let before = *val;
    let g = ExecGuard::start(call, "get", before);
    yields(steps as u64).await;
    let after = *val;
    g.end("get", before, after, after);
    after
}
async fn do_add(val: &mut u64, m: &str, call: u32, k: u64, steps: u32) -> u64 {
    // read-modify-write across a suspension point: only correct if executed atomically
    let before = *val;
    let g = ExecGuard::start(call, m, before);
    yields(steps as u64).await;
    *val = before + k;
    g.end(m, before, *val, *val);
    *val
}

impl v1::Counter for Obj {
    async fn get(&self, call: u32, steps: u32) -> Result<u64, CallError> {
        Ok(do_get(&self.val, call, steps).await)
    }
    async fn add(&mut self, call: u32, k: u64, steps: u32) -> Result<u64, CallError> {
        Ok(do_add(&mut self.val, "add", call, k, steps).await)
    }
    async fn add_nc(&mut self, call: u32, k: u64, steps: u32) -> Result<u64, CallError> {
        // writes before its suspension point: an execution that is abandoned there leaves a state no completed
        // execution explains
        let before = self.val;
        let g = ExecGuard::start(call, "add_nc", before);
        self.val = before + k;
        yields(steps as u64).await;
        g.end("add_nc", before, self.val, self.val);
        Ok(self.val)
    }
    async fn hang(&mut self, call: u32) -> Result<u64, CallError> {
        let _g = ExecGuard::start(call, "hang", self.val);
        futures::future::pending::<()>().await;
        Ok(0)
    }
    async fn hang_ref(&self, call: u32) -> Result<u64, CallError> {
        let _g = ExecGuard::start(call, "hang_ref", self.val);
        futures::future::pending::<()>().await;
        Ok(0)
    }
    async fn big(&self, call: u32, size: u32) -> Result<Vec<u8>, CallError> {
        let g = ExecGuard::start(call, "big", self.val);
        g.end("big", self.val, self.val, size as u64);
        Ok(vec![7u8; size as usize])
    }
    async fn picky(&self, call: u32, _arg: Picky) -> Result<u64, CallError> {
        let g = ExecGuard::start(call, "picky", self.val);
        g.end("picky", self.val, self.val, self.val);
        Ok(self.val)
    }
    async fn bump(&mut self, call: u32, k: u64) -> Result<u64, CallError> {
        // the target's own version: one atomic execution adding 2k
        let before = self.val;
        let g = ExecGuard::start(call, "bump", before);
        yields(2).await;
        self.val = before + 2 * k;
        g.end("bump", before, self.val, self.val);
        Ok(self.val)
    }
}

impl once::Taker for Obj {
    async fn get(&self, call: u32, steps: u32) -> Result<u64, CallError> {
        Ok(do_get(&self.val, call, steps).await)
    }
    async fn add(&mut self, call: u32, k: u64, steps: u32) -> Result<u64, CallError> {
        Ok(do_add(&mut self.val, "add", call, k, steps).await)
    }
    async fn take(self, call: u32, steps: u32) -> Result<u64, CallError> {
        let g = ExecGuard::start(call, "take", self.val);
        yields(steps as u64).await;
        g.end("take", self.val, self.val, self.val);
        Ok(self.val)
    }
    async fn take_hang(self, call: u32) -> Result<u64, CallError> {
        let _g = ExecGuard::start(call, "take_hang", self.val);
        futures::future::pending::<()>().await;
        Ok(0)
    }
}

static NEXT_CALL: AtomicU32 = AtomicU32::new(1);
const REPLY_LIMIT: usize = 300;

fn err_kind(e: &CallError) -> &'static str {
    match e {
        CallError::Dropped => "dropped",
        CallError::RemoteSend(_) => "remote_send",
        CallError::RemoteReceive(_) => "remote_receive",
        CallError::RemoteConnect(_) => "remote_connect",
        CallError::RemoteListen(_) => "remote_listen",
        CallError::RemoteForward => "remote_forward",
    }
}

fn log_ret<T>(call: u32, r: Option<Result<T, CallError>>, val: impl Fn(&T) -> u64) {
    match r {
        None => tr(json!({"ev": "c_cancel", "call": call})),
        Some(Ok(v)) => tr(json!({"ev": "c_ret", "call": call, "r": "ok", "v": val(&v)})),
        Some(Err(e)) => tr(json!({"ev": "c_ret", "call": call, "r": "err", "kind": err_kind(&e)})),
    }
}

#[derive(Clone, Debug)]
pub struct RtcOpts {
    pub remote: bool,
    pub cut: bool,
    /// allow calls whose reply exceeds the client's reply size limit
    pub oversize: bool,
    /// allow undecodable requests and calls of a method the server does not know
    pub undecodable: bool,
    /// 0 by-value server, 1 RefMut, 2 SharedMut (spawn), 3 SharedMut (no spawn), 4 random
    pub flavour: u64,
    /// number of separate connections carrying remote clients (endpoints 2, 3, ...); with `cut` all but the last fail
    pub conns: u64,
}

/// One client task: a seeded sequence of calls through its own client (clone).
async fn client_task(mut c: v1::CounterClient, cl: u64, ep: u64, mut rng: Rng, n: u64, opts: RtcOpts) {
    use v1::Counter;
    c.set_max_reply_size(REPLY_LIMIT);
    for _ in 0..n {
        let call = NEXT_CALL.fetch_add(1, Ordering::SeqCst);
        let steps = rng.below(6) as u32;
        let k = rng.range(1, 9);
        let cancel = rng.chance(1, 5);
        let polls = if cancel { rng.range(1, 14) } else { u64::MAX };
        let pick = rng.below(20);
        let (m, arg): (&str, u64) = match pick {
            0..=5 => ("get", 0),
            6..=10 => ("add", k),
            11 => ("add_nc", k),
            12 => ("bump", k),
            13 | 14 => ("hang", 0),
            15 => ("hang_ref", 0),
            16 | 17 if opts.oversize => ("big", if rng.chance(1, 2) { REPLY_LIMIT as u64 + rng.range(50, 400) } else { rng.range(1, 200) }),
            18 if opts.undecodable => ("picky", rng.below(2)),
            _ => ("get", 0),
        };
        // hanging calls are always abandoned by their caller
        let polls = if m.starts_with("hang") { rng.range(2, 30) } else { polls };
        tr(json!({"ev": "c_call", "call": call, "cl": cl, "ep": ep, "m": m, "k": arg, "steps": steps, "polls": if polls == u64::MAX { -1 } else { polls as i64 }}));
        match m {
            "get" => log_ret(call, cancel_after(c.get(call, steps), polls).await, |v| *v),
            "add" => log_ret(call, cancel_after(c.add(call, k, steps), polls).await, |v| *v),
            "add_nc" => log_ret(call, cancel_after(c.add_nc(call, k, steps), polls).await, |v| *v),
            "bump" => log_ret(call, Some(c.bump(call, k).await), |v| *v),
            "hang" => log_ret(call, cancel_after(c.hang(call), polls).await, |v| *v),
            "hang_ref" => log_ret(call, cancel_after(c.hang_ref(call), polls).await, |v| *v),
            "big" => log_ret(call, cancel_after(c.big(call, arg as u32), polls).await, |v| v.len() as u64),
            _ => log_ret(call, cancel_after(c.picky(call, Picky { poison: arg == 1 }), polls).await, |v| *v),
        }
        yields(rng.below(8)).await;
    }
    tr(json!({"ev": "c_done", "cl": cl}));
}

/// Client of the newer trait version: calls the method the server does not know, then a known one.
async fn client_task_v2(mut c: v2::CounterClient, cl: u64, ep: u64, mut rng: Rng) {
    use v2::Counter;
    for i in 0..3 {
        let call = NEXT_CALL.fetch_add(1, Ordering::SeqCst);
        if i == 1 {
            tr(json!({"ev": "c_call", "call": call, "cl": cl, "ep": ep, "m": "extra", "k": 0, "steps": 0, "polls": -1}));
            log_ret(call, Some(c.extra(call).await), |v| *v);
        } else {
            let k = rng.range(1, 9);
            let steps = rng.below(4) as u32;
            tr(json!({"ev": "c_call", "call": call, "cl": cl, "ep": ep, "m": "add", "k": k, "steps": steps, "polls": -1}));
            log_ret(call, Some(c.add(call, k, steps).await), |v| *v);
        }
        yields(rng.below(8)).await;
    }
    tr(json!({"ev": "c_done", "cl": cl}));
}

pub async fn scenario(seed: u64, opts: &RtcOpts) {
    use remoc::rtc::{Server, ServerRefMut, ServerSharedMut};
    let mut rng = Rng::new(seed ^ 0x27C1);
    NEXT_CALL.store(1, Ordering::SeqCst);
    let (ca, cb) = (upper_cfg(&mut rng), upper_cfg(&mut rng));
    let flavour = if opts.flavour >= 4 { rng.below(4) } else { opts.flavour };
    let fl_name = ["value", "refmut", "sharedmut_spawn", "sharedmut_nospawn"][flavour as usize];
    let buf = rng.range(1, 4) as usize;
    tr(json!({"ev": "reset", "seed": seed, "wl": "rtc", "flavour": fl_name, "remote": opts.remote, "cut": opts.cut, "buf": buf,
              "oversize": opts.oversize, "undecodable": opts.undecodable, "limit": REPLY_LIMIT}));
    install_spawn_policy(seed, 1, 4);
    // the server task hands its client out through a oneshot
    let (ctx, crx) = tokio::sync::oneshot::channel::<v1::CounterClient>();
    let server = spawn_d(1, async move {
        let res: Result<(), remoc::rtc::ServeError> = match flavour {
            0 => {
                let (s, c) = v1::CounterServer::new(Obj { val: 0 }, buf);
                let _ = ctx.send(c);
                s.serve().await.1
            }
            1 => {
                let mut obj = Obj { val: 0 };
                let (s, c) = v1::CounterServerRefMut::new(&mut obj, buf);
                let _ = ctx.send(c);
                s.serve().await
            }
            f => {
                let obj = std::sync::Arc::new(tokio::sync::RwLock::new(Obj { val: 0 }));
                let (s, c) = v1::CounterServerSharedMut::new(obj, buf);
                let _ = ctx.send(c);
                s.serve(f == 2).await
            }
        };
        match res {
            Ok(()) => tr(json!({"ev": "srv_end", "ok": true})),
            Err(e) => tr(json!({"ev": "srv_end", "ok": false, "err": format!("{e}")})),
        }
    });
    let client = crx.await.expect("client");
    let mut handles: Vec<tokio::task::JoinHandle<()>> = Vec::new();
    let mut links = Vec::new();
    let mut conns_keep = Vec::new();
    let mut conn2_keep = None;
    let nclients = rng.range(2, 4) + if opts.conns > 1 { 2 } else { 0 };
    // remote clients with the endpoint they live on (2 + index of their connection)
    let mut remote_clients: Vec<(v1::CounterClient, u64)> = Vec::new();
    let mut v2_client: Option<v2::CounterClient> = None;
    if opts.remote {
        for ci in 0..opts.conns.max(1) {
            let (ca, cb) = if ci == 0 { (ca.clone(), cb.clone()) } else { (upper_cfg(&mut rng), upper_cfg(&mut rng)) };
            let mut conn = rem_connect::<v1::CounterClient, ()>(&ca, &cb, seed + ci * 1000, ci * 20).await;
            let k = if opts.conns > 1 { 1 } else { rng.range(1, 2) };
            for _ in 0..k {
                let (s, r) = tokio::join!(conn.a_tx.send(client.clone()), conn.b_rx.recv());
                s.ok().expect("send client");
                remote_clients.push((r.ok().expect("recv client").expect("client"), 2 + ci));
            }
            links.extend(conn.links());
            conns_keep.push(conn);
        }
        if opts.undecodable && rng.chance(1, 2) {
            // the same client, received as the client type of the newer trait version
            let mut conn2 = rem_connect_x::<v1::CounterClient, (), (), v2::CounterClient>(&ca, &cb, seed + 77, 100).await;
            let (s, r) = tokio::join!(conn2.a_tx.send(client.clone()), conn2.b_rx.recv());
            s.ok().expect("send client");
            v2_client = Some(r.ok().expect("recv v2 client").expect("v2 client"));
            links.extend(conn2.links());
            conn2_keep = Some(conn2);
        }
    }
    for i in 0..nclients {
        let r = Rng::new(seed * 97 + i);
        let n = rng.range(2, 4) + if opts.conns > 1 { 3 } else { 0 };
        let use_remote = !remote_clients.is_empty() && (rng.chance(1, 2) || (opts.conns > 1 && (i as usize) < remote_clients.len()));
        let (c, ep) = if use_remote {
            // with several connections every connection gets at least one client
            let k = if opts.conns > 1 && (i as usize) < remote_clients.len() { i as usize } else { rng.below(remote_clients.len() as u64) as usize };
            (remote_clients[k].0.clone(), remote_clients[k].1)
        } else {
            (client.clone(), 1)
        };
        tr(json!({"ev": "c_new", "cl": i + 1, "ep": ep}));
        handles.push(spawn_d(ep, client_task(c, i + 1, ep, r, n, opts.clone())));
    }
    if let Some(c) = v2_client.take() {
        tr(json!({"ev": "c_new", "cl": 9, "ep": 9}));
        handles.push(spawn_d(2, client_task_v2(c, 9, 9, Rng::new(seed * 97 + 9))));
    }
    drop(client);
    drop(remote_clients);
    if opts.cut {
        // all connections but the last one fail, one after the other (with a single connection: that one)
        let ncut = if conns_keep.len() > 1 { conns_keep.len() - 1 } else { conns_keep.len() };
        for (ci, conn) in conns_keep.iter().take(ncut).enumerate() {
            yields(rng.range(5, 150)).await;
            tr(json!({"ev": "fault", "kind": "cut", "ep": 2 + ci}));
            for l in [&conn.ab, &conn.ba] {
                l.set(|st| {
                    st.sink_err = true;
                    st.stream_err = true;
                });
            }
        }
    }
    let left = wait_tasks(&mut handles, &links, 4000).await;
    tr(json!({"ev": "r_clients_end", "pending": left}));
    for h in handles {
        h.abort();
    }
    settle().await;
    // all clients are gone: the server must end by itself
    let mut sh = vec![server];
    let sleft = wait_tasks(&mut sh, &links, 4000).await;
    tr(json!({"ev": "r_end", "pending": left, "server_pending": sleft}));
    for h in sh {
        h.abort();
    }
    for conn in conns_keep.into_iter() {
        conn.pump.abort();
        for c in conn.conn {
            c.abort();
        }
    }
    for conn in conn2_keep.into_iter() {
        conn.pump.abort();
        for c in conn.conn {
            c.abort();
        }
    }
    settle().await;
}

/// By-value server with a by-value method: the first `take` consumes the target and ends the server.
pub async fn once_scenario(seed: u64, remote: bool) {
    use once::Taker;
    use remoc::rtc::Server;
    let mut rng = Rng::new(seed ^ 0x0CE);
    NEXT_CALL.store(1, Ordering::SeqCst);
    let (ca, cb) = (upper_cfg(&mut rng), upper_cfg(&mut rng));
    let buf = rng.range(1, 3) as usize;
    tr(json!({"ev": "reset", "seed": seed, "wl": "rtc_once", "flavour": "value", "remote": remote, "cut": false, "buf": buf,
              "oversize": false, "undecodable": false, "limit": REPLY_LIMIT}));
    install_spawn_policy(seed, 1, 4);
    let (s, client) = once::TakerServer::new(Obj { val: 0 }, buf);
    let server = spawn_d(1, async move {
        let (target, res) = s.serve().await;
        tr(json!({"ev": "srv_end", "ok": res.is_ok(), "target_back": target.is_some()}));
    });
    let mut links = Vec::new();
    let mut conn_keep = None;
    let mut client = client;
    let mut ep = 1;
    if remote {
        let mut conn = rem_connect::<once::TakerClient, ()>(&ca, &cb, seed, 0).await;
        let (s, r) = tokio::join!(conn.a_tx.send(client), conn.b_rx.recv());
        s.ok().expect("send client");
        client = r.ok().expect("recv client").expect("client");
        ep = 2;
        links.extend(conn.links());
        conn_keep = Some(conn);
    }
    let mut r = Rng::new(seed * 31 + 5);
    let mut handles = vec![spawn_d(ep, async move {
        let n = r.range(1, 4);
        for _ in 0..n {
            let call = NEXT_CALL.fetch_add(1, Ordering::SeqCst);
            let steps = r.below(5) as u32;
            let k = r.range(1, 9);
            let cancel = r.chance(1, 5);
            let polls = if cancel { r.range(1, 14) } else { u64::MAX };
            let m = if r.chance(1, 2) { "get" } else { "add" };
            tr(json!({"ev": "c_call", "call": call, "cl": 1, "ep": ep, "m": m, "k": if m == "add" { k } else { 0 }, "steps": steps, "polls": if polls == u64::MAX { -1 } else { polls as i64 }}));
            if m == "get" {
                log_ret(call, cancel_after(client.get(call, steps), polls).await, |v| *v);
            } else {
                log_ret(call, cancel_after(client.add(call, k, steps), polls).await, |v| *v);
            }
            yields(r.below(6)).await;
        }
        let call = NEXT_CALL.fetch_add(1, Ordering::SeqCst);
        let steps = r.below(5) as u32;
        let cancel = r.chance(1, 4);
        let polls = if cancel { r.range(1, 14) } else { u64::MAX };
        if r.chance(1, 3) {
            // a by-value method that only ends when its caller gives up
            let polls = r.range(2, 30);
            tr(json!({"ev": "c_call", "call": call, "cl": 1, "ep": ep, "m": "take_hang", "k": 0, "steps": 0, "polls": polls}));
            log_ret(call, cancel_after(client.take_hang(call), polls).await, |v| *v);
        } else {
            tr(json!({"ev": "c_call", "call": call, "cl": 1, "ep": ep, "m": "take", "k": 0, "steps": steps, "polls": if polls == u64::MAX { -1 } else { polls as i64 }}));
            log_ret(call, cancel_after(client.take(call, steps), polls).await, |v| *v);
        }
        tr(json!({"ev": "c_done", "cl": 1}));
    })];
    let left = wait_tasks(&mut handles, &links, 4000).await;
    tr(json!({"ev": "r_clients_end", "pending": left}));
    for h in handles {
        h.abort();
    }
    settle().await;
    let mut sh = vec![server];
    let sleft = wait_tasks(&mut sh, &links, 4000).await;
    tr(json!({"ev": "r_end", "pending": left, "server_pending": sleft}));
    for h in sh {
        h.abort();
    }
    for conn in conn_keep.into_iter() {
        conn.pump.abort();
        for c in conn.conn {
            c.abort();
        }
    }
    settle().await;
}

// ------------------------------------------------------------------------------------------------ remote functions
/// Remote functions (rfn): one scenario per function kind.  kind 0: RFnMut (a read-modify-write closure, calls in
/// sequence, some abandoned by the caller - the provider must run each request once and to completion);
/// kind 1: RFn (shared by clones, concurrent calls); kind 2: RFnOnce.
pub async fn rfn_scenario(seed: u64, remote: bool, kind: u64) {
    use remoc::rfn::{RFn, RFnMut, RFnOnce};
    use std::sync::atomic::AtomicU64;
    type FErr = remoc::rfn::CallError;
    fn log_ret_f(call: u32, r: Option<Result<u64, FErr>>, _val: impl Fn(&u64) -> u64) {
        match r {
            None => tr(json!({"ev": "c_cancel", "call": call})),
            Some(Ok(v)) => tr(json!({"ev": "c_ret", "call": call, "r": "ok", "v": v})),
            Some(Err(e)) => tr(json!({"ev": "c_ret", "call": call, "r": "err", "kind": format!("{e:?}").split('(').next().unwrap_or("err").to_lowercase()})),
        }
    }
    let mut rng = Rng::new(seed ^ 0x2F17);
    NEXT_CALL.store(1, Ordering::SeqCst);
    let (ca, cb) = (upper_cfg(&mut rng), upper_cfg(&mut rng));
    let kind = if kind >= 3 { seed % 3 } else { kind };
    let kname = ["fmut", "fconst", "fonce"][kind as usize];
    tr(json!({"ev": "reset", "seed": seed, "wl": "rfn", "flavour": kname, "remote": remote, "cut": false, "buf": 1,
              "oversize": false, "undecodable": false, "limit": REPLY_LIMIT}));
    install_spawn_policy(seed, 1, 4);
    let val = std::sync::Arc::new(AtomicU64::new(0));
    type FMut = RFnMut<(u32, u64, u32), Result<u64, FErr>>;
    type FConst = RFn<(u32, u32), Result<u64, FErr>>;
    type FOnce = RFnOnce<(u32, u32), Result<u64, FErr>>;
    let v1 = val.clone();
    let fmut: FMut = RFnMut::new_3(move |call: u32, k: u64, steps: u32| {
        let v = v1.clone();
        async move {
            let before = v.load(Ordering::SeqCst);
            let g = ExecGuard::start(call, "fmut", before);
            v.store(before + k, Ordering::SeqCst);
            yields(steps as u64).await;
            let after = v.load(Ordering::SeqCst);
            g.end("fmut", before, after, after);
            Ok(after)
        }
    });
    let v2 = val.clone();
    let fconst: FConst = RFn::new_2(move |call: u32, steps: u32| {
        let v = v2.clone();
        async move {
            let before = v.load(Ordering::SeqCst);
            let g = ExecGuard::start(call, "fconst", before);
            yields(steps as u64).await;
            g.end("fconst", before, before, before + call as u64);
            Ok(before + call as u64)
        }
    });
    let v3 = val.clone();
    let fonce: FOnce = RFnOnce::new_2(move |call: u32, steps: u32| async move {
        let before = v3.load(Ordering::SeqCst);
        let g = ExecGuard::start(call, "fonce", before);
        yields(steps as u64).await;
        g.end("fonce", before, before, before + 1000);
        Ok(before + 1000)
    });
    let mut links = Vec::new();
    let mut conn_keep = None;
    let (mut fmut, fconst, fonce, ep) = if remote {
        let mut conn = rem_connect::<(FMut, FConst, FOnce), ()>(&ca, &cb, seed, 0).await;
        let (s, r) = tokio::join!(conn.a_tx.send((fmut, fconst, fonce)), conn.b_rx.recv());
        s.ok().expect("send functions");
        let (a, b, c) = r.ok().expect("recv functions").expect("functions");
        links.extend(conn.links());
        conn_keep = Some(conn);
        (a, b, c, 2u64)
    } else {
        (fmut, fconst, fonce, 1u64)
    };
    let mut handles: Vec<tokio::task::JoinHandle<()>> = Vec::new();
    match kind {
        0 => {
            let mut r = Rng::new(seed * 41 + 1);
            tr(json!({"ev": "c_new", "cl": 1, "ep": ep}));
            handles.push(spawn_d(ep, async move {
                for _ in 0..r.range(3, 7) {
                    let call = NEXT_CALL.fetch_add(1, Ordering::SeqCst);
                    let (k, steps) = (r.range(1, 9), r.below(6) as u32);
                    let polls = if r.chance(1, 3) { r.range(1, 16) } else { u64::MAX };
                    tr(json!({"ev": "c_call", "call": call, "cl": 1, "ep": ep, "m": "fmut", "k": k, "steps": steps, "polls": if polls == u64::MAX { -1 } else { polls as i64 }}));
                    log_ret_f(call, cancel_after(fmut.call(call, k, steps), polls).await, |v| *v);
                    yields(r.below(8)).await;
                }
                tr(json!({"ev": "c_done", "cl": 1}));
            }));
            drop(fconst);
            drop(fonce);
        }
        1 => {
            for cl in 1..=rng.range(2, 3) {
                let f = fconst.clone();
                let mut r = Rng::new(seed * 41 + cl);
                tr(json!({"ev": "c_new", "cl": cl, "ep": ep}));
                handles.push(spawn_d(ep, async move {
                    for _ in 0..r.range(2, 4) {
                        let call = NEXT_CALL.fetch_add(1, Ordering::SeqCst);
                        let steps = r.below(6) as u32;
                        let polls = if r.chance(1, 4) { r.range(1, 16) } else { u64::MAX };
                        tr(json!({"ev": "c_call", "call": call, "cl": cl, "ep": ep, "m": "fconst", "k": call, "steps": steps, "polls": if polls == u64::MAX { -1 } else { polls as i64 }}));
                        log_ret_f(call, cancel_after(f.call(call, steps), polls).await, |v| *v);
                        yields(r.below(8)).await;
                    }
                    tr(json!({"ev": "c_done", "cl": cl}));
                }));
            }
            drop(fconst);
            drop(fmut);
            drop(fonce);
        }
        _ => {
            let mut r = Rng::new(seed * 41 + 3);
            tr(json!({"ev": "c_new", "cl": 1, "ep": ep}));
            handles.push(spawn_d(ep, async move {
                let call = NEXT_CALL.fetch_add(1, Ordering::SeqCst);
                let steps = r.below(6) as u32;
                let polls = if r.chance(1, 3) { r.range(1, 16) } else { u64::MAX };
                tr(json!({"ev": "c_call", "call": call, "cl": 1, "ep": ep, "m": "fonce", "k": 1000, "steps": steps, "polls": if polls == u64::MAX { -1 } else { polls as i64 }}));
                log_ret_f(call, cancel_after(fonce.call(call, steps), polls).await, |v| *v);
                tr(json!({"ev": "c_done", "cl": 1}));
            }));
            drop(fconst);
            drop(fmut);
        }
    }
    let left = wait_tasks(&mut handles, &links, 4000).await;
    tr(json!({"ev": "r_clients_end", "pending": left}));
    for h in handles {
        h.abort();
    }
    // let the providers finish what they were doing
    for _ in 0..60 {
        settle().await;
    }
    tr(json!({"ev": "r_end", "pending": left, "server_pending": 0, "final": val.load(Ordering::SeqCst)}));
    for conn in conn_keep.into_iter() {
        conn.pump.abort();
        for c in conn.conn {
            c.abort();
        }
    }
    settle().await;
}
