//! Workloads: each drives real remoc objects under a seeded schedule and records a trace.

use crate::*;
use remoc::chmux::{self, ChMux, ChMuxError, Client, Listener};
use serde_json::json;
use std::future::Future;
use std::pin::Pin;
use std::time::Duration;
use tokio::task::JoinHandle;

pub mod bcast_watch;
pub mod chmux_block;
pub mod chmux_data;
pub mod chmux_life;
pub mod chmux_misc;
pub mod chmux_peer;
pub mod handles;
pub mod iochan;
pub mod robs;
pub mod rtc;
pub mod rwlock;
pub mod typed;
pub mod wiring;

pub type MuxResult = Result<(), ChMuxError<io::Error, io::Error>>;

/// Configuration knobs of one endpoint that the workloads vary.
#[derive(Clone, Debug)]
pub struct EpCfg {
    pub chunk: u32,
    pub rbuf: u32,
    pub max_data: usize,
    pub shared_q: usize,
    pub tx_q: usize,
    pub rx_q: usize,
    pub connect_q: u16,
    pub max_ports: u32,
    pub max_recv_ports: usize,
    pub timeout_ms: u64,
}

impl EpCfg {
    pub fn small(rng: &mut Rng) -> Self {
        EpCfg {
            chunk: rng.range(4, 9) as u32,
            rbuf: rng.range(4, 16) as u32,
            max_data: rng.range(8, 24) as usize,
            shared_q: rng.range(1, 3) as usize,
            tx_q: rng.range(1, 2) as usize,
            rx_q: rng.range(1, 2) as usize,
            connect_q: rng.range(1, 3) as u16,
            max_ports: 16,
            max_recv_ports: 8,
            timeout_ms: 0,
        }
    }
    pub fn to_cfg(&self) -> chmux::Cfg {
        chmux::Cfg {
            chunk_size: self.chunk,
            receive_buffer: self.rbuf,
            max_data_size: self.max_data,
            shared_send_queue: self.shared_q,
            transport_send_queue: self.tx_q,
            transport_receive_queue: self.rx_q,
            connect_queue: self.connect_q,
            max_ports: self.max_ports,
            max_received_ports: self.max_recv_ports,
            connection_timeout: if self.timeout_ms == 0 { None } else { Some(Duration::from_millis(self.timeout_ms)) },
            ..Default::default()
        }
    }
    pub fn json(&self) -> serde_json::Value {
        json!({"chunk": self.chunk, "rbuf": self.rbuf, "max_data": self.max_data, "shared_q": self.shared_q,
               "tx_q": self.tx_q, "rx_q": self.rx_q, "connect_q": self.connect_q, "max_ports": self.max_ports,
               "max_recv_ports": self.max_recv_ports, "timeout_ms": self.timeout_ms, "version": 3})
    }
}

/// Two connected endpoints A (label 1) and B (label 2) over the harness-owned transport.
pub struct Conn {
    pub ab: Link,
    pub ba: Link,
    pub client: [Option<Client>; 2],
    pub listener: [Option<Listener>; 2],
    pub run: [Option<JoinHandle<MuxResult>>; 2],
    /// Connection timeout (ms) used to let virtual time pass during teardown after a silent fault.
    pub timeout_ms: u64,
}

pub fn mux_err_class(r: &MuxResult) -> &'static str {
    match r {
        Ok(()) => "ok",
        Err(ChMuxError::SinkError(_)) => "sink",
        Err(ChMuxError::StreamError(_)) => "stream",
        Err(ChMuxError::StreamClosed) => "closed",
        Err(ChMuxError::Reset) => "reset",
        Err(ChMuxError::Timeout) => "timeout",
        Err(ChMuxError::Protocol(_)) => "protocol",
    }
}

impl Conn {
    /// Handshake with eager delivery, then both dispatchers are spawned (labelled, deferrable by H1).
    pub async fn establish(a: &EpCfg, b: &EpCfg) -> Conn {
        let (ab, ba) = link_pair();
        let (a_sink, b_stream) = ab.halves();
        let (b_sink, a_stream) = ba.halves();
        let a_new = Labeled::new(1, ChMux::new(a.to_cfg(), a_sink, a_stream));
        let b_new = Labeled::new(2, ChMux::new(b.to_cfg(), b_sink, b_stream));
        let (pab, pba) = (ab.clone(), ba.clone());
        let pump = tokio::spawn(async move {
            loop {
                pab.deliver();
                pba.deliver();
                tokio::task::yield_now().await;
            }
        });
        let ((am, ac, al), (bm, bc, bl)) = futures::future::try_join(a_new, b_new).await.expect("handshake");
        pump.abort();
        let a_run = tokio::spawn(remoc::verif::Deferred::new(Labeled::new(1, am.run())));
        let b_run = tokio::spawn(remoc::verif::Deferred::new(Labeled::new(2, bm.run())));
        settle().await;
        Conn { ab, ba, client: [Some(ac), Some(bc)], listener: [Some(al), Some(bl)], run: [Some(a_run), Some(b_run)], timeout_ms: 0 }
    }

    /// Link carrying frames sent by endpoint `ep` (1 or 2).
    pub fn out_link(&self, ep: u64) -> &Link {
        if ep == 1 { &self.ab } else { &self.ba }
    }

    /// Delivers every frame in flight (in both directions) until nothing moves any more.
    pub async fn flush(&self) {
        for _ in 0..10_000 {
            let mut moved = false;
            while self.ab.deliver() {
                moved = true;
            }
            while self.ba.deliver() {
                moved = true;
            }
            settle().await;
            if !moved && self.ab.pending() == 0 && self.ba.pending() == 0 {
                break;
            }
        }
    }

    /// Logs `run_end` for every dispatcher that has finished; returns how many are still running.
    pub async fn reap(&mut self) -> usize {
        let mut running = 0;
        for i in 0..2 {
            if let Some(h) = &mut self.run[i] {
                if h.is_finished() {
                    let res = h.await;
                    let class = match &res {
                        Ok(r) => mux_err_class(r),
                        Err(e) if e.is_panic() => "panic",
                        Err(_) => "aborted",
                    };
                    tr(json!({"ev": "run_end", "ep": i + 1, "res": class}));
                    self.run[i] = None;
                } else {
                    running += 1;
                }
            }
        }
        running
    }

    /// Drops clients and listeners, delivers everything and waits (bounded) for both dispatchers to end.
    pub async fn teardown(&mut self) {
        for i in 0..2 {
            if self.client[i].take().is_some() {
                tr(json!({"ev": "drop", "ep": i + 1, "what": "client"}));
            }
            if self.listener[i].take().is_some() {
                tr(json!({"ev": "drop", "ep": i + 1, "what": "listener"}));
            }
        }
        let mut waited = 0u64;
        for round in 0..400 {
            self.flush().await;
            if self.reap().await == 0 {
                break;
            }
            let faulted = self.ab.0.lock().unwrap().faulted || self.ba.0.lock().unwrap().faulted;
            if round % 10 == 9 && faulted && self.timeout_ms > 0 && waited < 4 * self.timeout_ms {
                let step = self.timeout_ms / 4;
                tr(json!({"ev": "advance", "ms": step}));
                tokio::time::advance(Duration::from_millis(step)).await;
                waited += step;
            }
        }
        for i in 0..2 {
            if let Some(h) = self.run[i].take() {
                tr(json!({"ev": "run_end", "ep": i + 1, "res": "running"}));
                h.abort();
            }
        }
        settle().await;
    }
}

pub fn send_err_class(e: &chmux::SendError) -> &'static str {
    match e {
        chmux::SendError::ChMux => "chmux",
        chmux::SendError::Closed { gracefully: true } => "closed_graceful",
        chmux::SendError::Closed { gracefully: false } => "closed_dropped",
    }
}


// ------------------------------------------------------------------------------------------------ remoc connections

use remoc::rch::base;

/// A full remoc connection (chmux + initial base channel in both directions) between endpoints A (label 1) and
/// B (label 2) over the harness transport; frames are delivered by a seeded background pump.
pub struct RemConnX<AS, AR, BS, BR> {
    pub a_tx: base::Sender<AS>,
    pub a_rx: base::Receiver<AR>,
    pub b_tx: base::Sender<BS>,
    pub b_rx: base::Receiver<BR>,
    pub ab: Link,
    pub ba: Link,
    pub conn: [JoinHandle<MuxResult>; 2],
    pub pump: JoinHandle<()>,
}
pub type RemConn<TA, TB> = RemConnX<TA, TB, TB, TA>;

pub async fn rem_connect<TA, TB>(a: &EpCfg, b: &EpCfg, seed: u64, label_base: u64) -> RemConn<TA, TB>
where
    TA: remoc::RemoteSend,
    TB: remoc::RemoteSend,
{
    rem_connect_x::<TA, TB, TB, TA>(a, b, seed, label_base).await
}

/// 0: transport chosen by VERIF_STREAM / seed, 1: frames, 2: byte stream.
pub static FORCE_STREAM: std::sync::atomic::AtomicU8 = std::sync::atomic::AtomicU8::new(0);

/// Connection whose two ends may disagree about the item types (version skew): A sends `AS` and receives `AR`,
/// B sends `BS` and receives `BR`.
pub async fn rem_connect_x<AS, AR, BS, BR>(a: &EpCfg, b: &EpCfg, seed: u64, label_base: u64) -> RemConnX<AS, AR, BS, BR>
where
    AS: remoc::RemoteSend,
    AR: remoc::RemoteSend,
    BS: remoc::RemoteSend,
    BR: remoc::RemoteSend,
{
    let (ab, ba) = link_pair();
    let quiet = std::env::var_os("VERIF_WIRE").is_none();
    ab.set(|st| st.quiet = quiet);
    ba.set(|st| st.quiet = quiet);
    let (a_sink, b_stream) = ab.halves();
    let (b_sink, a_stream) = ba.halves();
    let pump = spawn_pump(vec![ab.clone(), ba.clone()], seed);
    // transport: frames handed over as they are (Connect::framed) or a byte stream with length-prefixed frames
    // (Connect::io) delivered in seeded pieces; VERIF_STREAM=0|1 forces one of them, otherwise the seed decides
    let stream = match (FORCE_STREAM.load(std::sync::atomic::Ordering::SeqCst), std::env::var("VERIF_STREAM").ok().as_deref()) {
        (1, _) => false,
        (2, _) => true,
        (_, Some("0")) => false,
        (_, Some("1")) => true,
        _ => seed % 3 == 0,
    };
    tr(json!({"ev": "transport", "stream": stream, "label": label_base}));
    type Boxed<'a, S, R> = Pin<Box<dyn Future<Output = Result<(remoc::Connect<'a, io::Error, io::Error>, base::Sender<S>, base::Receiver<R>), remoc::ConnectError<io::Error, io::Error>>> + Send + 'a>>;
    let (fa, fb): (Boxed<AS, AR>, Boxed<BS, BR>) = if stream {
        let (acfg, bcfg) = (a.to_cfg(), b.to_cfg());
        let a_out = ByteSink::new(a_sink, bcfg.max_frame_length() as usize);
        let b_out = ByteSink::new(b_sink, acfg.max_frame_length() as usize);
        let a_in = ByteStream::new(a_stream, seed * 2 + 1);
        let b_in = ByteStream::new(b_stream, seed * 2 + 2);
        (
            Box::pin(remoc::Connect::io::<_, _, AS, AR, remoc::codec::Default>(acfg, a_in, a_out)),
            Box::pin(remoc::Connect::io::<_, _, BS, BR, remoc::codec::Default>(bcfg, b_in, b_out)),
        )
    } else {
        (
            Box::pin(remoc::Connect::framed::<_, _, AS, AR, remoc::codec::Default>(a.to_cfg(), a_sink, a_stream)),
            Box::pin(remoc::Connect::framed::<_, _, BS, BR, remoc::codec::Default>(b.to_cfg(), b_sink, b_stream)),
        )
    };
    let fa = Labeled::new(label_base + 1, fa);
    let fb = Labeled::new(label_base + 2, fb);
    let (ra, rb) = tokio::join!(fa, fb);
    let (ca, a_tx, a_rx) = ra.ok().expect("connect A");
    let (cb, b_tx, b_rx) = rb.ok().expect("connect B");
    let ha = tokio::spawn(remoc::verif::Deferred::new(Labeled::new(label_base + 1, ca)));
    let hb = tokio::spawn(remoc::verif::Deferred::new(Labeled::new(label_base + 2, cb)));
    RemConnX { a_tx, a_rx, b_tx, b_rx, ab, ba, conn: [ha, hb], pump }
}

impl<AS, AR, BS, BR> RemConnX<AS, AR, BS, BR> {
    pub fn links(&self) -> Vec<Link> {
        vec![self.ab.clone(), self.ba.clone()]
    }
}

/// Configuration for upper-layer workloads: small enough to exercise chunking and credit exhaustion.
pub fn upper_cfg(rng: &mut Rng) -> EpCfg {
    EpCfg {
        chunk: *rng.pick(&[16u32, 32, 64, 256]),
        rbuf: *rng.pick(&[64u32, 128, 512, 4096]),
        max_data: *rng.pick(&[64usize, 256, 4096]),
        shared_q: rng.range(1, 4) as usize,
        tx_q: rng.range(1, 3) as usize,
        rx_q: rng.range(1, 3) as usize,
        connect_q: 8,
        max_ports: std::env::var("VERIF_MAX_PORTS").ok().and_then(|v| v.parse().ok()).unwrap_or(64),
        max_recv_ports: 32,
        timeout_ms: 0,
    }
}

/// Moves `item` from A to B over a base channel: sends and receives concurrently (the encoded item may exceed the
/// receive buffer, and a send with embedded ports only completes once the receiver has processed them).  Returns
/// `None` if the send fails or the item does not arrive; never hangs.
pub async fn xfer<T: remoc::RemoteSend>(tx: &mut base::Sender<T>, rx: &mut base::Receiver<T>, item: T) -> Option<T> {
    xfer_why(tx, rx, item).await.ok()
}

/// Like `xfer`, with the reason of a failure.
pub async fn xfer_why<T: remoc::RemoteSend>(tx: &mut base::Sender<T>, rx: &mut base::Receiver<T>, item: T) -> Result<T, String> {
    use futures::future::{Either, select};
    let send = Box::pin(tx.send(item));
    let recv = Box::pin(rx.recv());
    match select(send, recv).await {
        Either::Left((Ok(()), recv)) => match patient(recv, 20_000, 3000).await {
            Some(Ok(Some(v))) => Ok(v),
            Some(Ok(None)) => Err("sent, receiver ended".into()),
            Some(Err(e)) => Err(format!("sent, recv error: {e}")),
            None => Err("sent, never received".into()),
        },
        Either::Left((Err(e), _recv)) => Err(format!("send error: {}", e.kind)),
        Either::Right((Ok(Some(v)), send)) => match patient(send, 20_000, 3000).await {
            Some(Ok(())) => Ok(v),
            Some(Err(e)) => Err(format!("received, send error: {}", e.kind)),
            None => Err("received, send never completed".into()),
        },
        Either::Right((Ok(None), _send)) => Err("receiver ended".into()),
        Either::Right((Err(e), _send)) => Err(format!("recv error: {e}")),
    }
}
