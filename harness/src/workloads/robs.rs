//! Observable collections (C13, C14): executes TLC-generated operation scripts on the real collections with a
//! real mirror and a hand-written event consumer attached at a chosen point, and records contents after each step.

use super::*;
use remoc::robs::{
    hash_map::{HashMapEvent, ObservableHashMap},
    hash_set::{HashSetEvent, ObservableHashSet},
    list::{ListEvent, ObservableList},
    vec::{ObservableVec, VecEvent},
    vec_deque::{ObservableVecDeque, VecDequeEvent},
};
use serde::{Deserialize, Serialize};
use serde_json::Value;
use std::hash::{Hash, Hasher};

/// Set element whose identity is the key only (Eq/Hash ignore the payload).
#[derive(Clone, Debug, Serialize, Deserialize)]
pub struct Keyed {
    pub k: u8,
    pub p: u8,
}
impl PartialEq for Keyed {
    fn eq(&self, o: &Self) -> bool {
        self.k == o.k
    }
}
impl Eq for Keyed {}
impl Hash for Keyed {
    fn hash<H: Hasher>(&self, h: &mut H) {
        self.k.hash(h)
    }
}

fn u(v: &Value, k: &str) -> usize {
    v[k].as_u64().unwrap_or(0) as usize
}
fn b(v: &Value, k: &str) -> u8 {
    v[k].as_u64().unwrap_or(0) as u8
}
fn sorted_idx(s: &std::collections::HashSet<usize>) -> Vec<usize> {
    let mut v: Vec<usize> = s.iter().copied().collect();
    v.sort();
    v
}

fn vec_event(e: &VecEvent<u8>) -> Value {
    match e {
        VecEvent::Push(v) => json!({"e": "Push", "v": v}),
        VecEvent::Pop => json!({"e": "Pop"}),
        VecEvent::Insert(i, v) => json!({"e": "Insert", "i": i, "v": v}),
        VecEvent::Set(i, v) => json!({"e": "Set", "i": i, "v": v}),
        VecEvent::Remove(i) => json!({"e": "Remove", "i": i}),
        VecEvent::SwapRemove(i) => json!({"e": "SwapRemove", "i": i}),
        VecEvent::Fill(v) => json!({"e": "Fill", "v": v}),
        VecEvent::Resize(n, v) => json!({"e": "Resize", "n": n, "v": v}),
        VecEvent::Truncate(n) => json!({"e": "Truncate", "n": n}),
        VecEvent::Retain(s) => json!({"e": "Retain", "idx": sorted_idx(s)}),
        VecEvent::RetainNot(s) => json!({"e": "RetainNot", "idx": sorted_idx(s)}),
        VecEvent::Clear => json!({"e": "Clear"}),
        VecEvent::ShrinkToFit => json!({"e": "ShrinkToFit"}),
        VecEvent::Done => json!({"e": "Done"}),
        VecEvent::InitialComplete => json!({"e": "InitialComplete"}),
    }
}
fn deque_event(e: &VecDequeEvent<u8>) -> Value {
    match e {
        VecDequeEvent::PushBack(v) => json!({"e": "PushBack", "v": v}),
        VecDequeEvent::PushFront(v) => json!({"e": "PushFront", "v": v}),
        VecDequeEvent::PopBack => json!({"e": "PopBack"}),
        VecDequeEvent::PopFront => json!({"e": "PopFront"}),
        VecDequeEvent::Insert(i, v) => json!({"e": "Insert", "i": i, "v": v}),
        VecDequeEvent::Set(i, v) => json!({"e": "Set", "i": i, "v": v}),
        VecDequeEvent::Remove(i) => json!({"e": "Remove", "i": i}),
        VecDequeEvent::SwapRemoveBack(i) => json!({"e": "SwapRemoveBack", "i": i}),
        VecDequeEvent::SwapRemoveFront(i) => json!({"e": "SwapRemoveFront", "i": i}),
        VecDequeEvent::Resize(n, v) => json!({"e": "Resize", "n": n, "v": v}),
        VecDequeEvent::Truncate(n) => json!({"e": "Truncate", "n": n}),
        VecDequeEvent::Retain(s) => json!({"e": "Retain", "idx": sorted_idx(s)}),
        VecDequeEvent::RetainNot(s) => json!({"e": "RetainNot", "idx": sorted_idx(s)}),
        VecDequeEvent::Clear => json!({"e": "Clear"}),
        VecDequeEvent::ShrinkToFit => json!({"e": "ShrinkToFit"}),
        VecDequeEvent::Done => json!({"e": "Done"}),
        VecDequeEvent::InitialComplete => json!({"e": "InitialComplete"}),
    }
}
fn map_event(e: &HashMapEvent<u8, u8>) -> Value {
    match e {
        HashMapEvent::Set(k, v) => json!({"e": "Set", "k": k, "v": v}),
        HashMapEvent::Remove(k) => json!({"e": "Remove", "k": k}),
        HashMapEvent::Clear => json!({"e": "Clear"}),
        HashMapEvent::ShrinkToFit => json!({"e": "ShrinkToFit"}),
        HashMapEvent::Done => json!({"e": "Done"}),
        HashMapEvent::InitialComplete => json!({"e": "InitialComplete"}),
    }
}
fn set_event(e: &HashSetEvent<Keyed>) -> Value {
    match e {
        HashSetEvent::Set(x) => json!({"e": "Set", "k": x.k, "v": x.p}),
        HashSetEvent::Remove(x) => json!({"e": "Remove", "k": x.k}),
        HashSetEvent::Clear => json!({"e": "Clear"}),
        HashSetEvent::ShrinkToFit => json!({"e": "ShrinkToFit"}),
        HashSetEvent::Done => json!({"e": "Done"}),
        HashSetEvent::InitialComplete => json!({"e": "InitialComplete"}),
    }
}
fn list_event(e: &ListEvent<u8>) -> Value {
    match e {
        ListEvent::Push(v) => json!({"e": "Push", "v": v}),
        ListEvent::Done => json!({"e": "Done"}),
        ListEvent::InitialComplete => json!({"e": "InitialComplete"}),
    }
}

fn map_json<'a>(it: impl Iterator<Item = (&'a u8, &'a u8)>) -> Value {
    let mut v: Vec<(u8, u8)> = it.map(|(k, v)| (*k, *v)).collect();
    v.sort();
    json!(v.iter().map(|(k, v)| json!([k, v])).collect::<Vec<_>>())
}
fn set_json<'a>(it: impl Iterator<Item = &'a Keyed>) -> Value {
    let mut v: Vec<(u8, u8)> = it.map(|x| (x.k, x.p)).collect();
    v.sort();
    json!(v.iter().map(|(k, v)| json!([k, v])).collect::<Vec<_>>())
}

fn apply_vec(o: &mut ObservableVec<u8>, op: &Value) {
    match op["o"].as_str().unwrap_or("") {
        "push" => o.push(b(op, "v")),
        "pop" => {
            o.pop();
        }
        "set" => {
            if let Some(mut r) = o.get_mut(u(op, "i")) {
                *r = b(op, "v");
            }
        }
        "iter_set" => {
            for mut r in o.iter_mut() {
                *r = b(op, "v");
            }
        }
        "insert" => o.insert(u(op, "i"), b(op, "v")),
        "remove" => {
            o.remove(u(op, "i"));
        }
        "swap_remove" => {
            o.swap_remove(u(op, "i"));
        }
        "fill" => o.fill(b(op, "v")),
        "resize" => o.resize(u(op, "n"), b(op, "v")),
        "truncate" => o.truncate(u(op, "n")),
        "clear" => o.clear(),
        "retain_ne" => {
            let v = b(op, "v");
            o.retain(|x| *x != v)
        }
        "retain_none" => o.retain(|_| false),
        "retain_all" => o.retain(|_| true),
        "shrink" => o.shrink_to_fit(),
        "done" => o.done(),
        other => panic!("unknown vec op {other}"),
    }
}
fn apply_deque(o: &mut ObservableVecDeque<u8>, op: &Value) {
    match op["o"].as_str().unwrap_or("") {
        "push_back" => o.push_back(b(op, "v")),
        "push_front" => o.push_front(b(op, "v")),
        "pop_back" => {
            o.pop_back();
        }
        "pop_front" => {
            o.pop_front();
        }
        "set" => {
            if let Some(mut r) = o.get_mut(u(op, "i")) {
                *r = b(op, "v");
            }
        }
        "iter_set" => {
            for mut r in o.iter_mut() {
                *r = b(op, "v");
            }
        }
        "insert" => o.insert(u(op, "i"), b(op, "v")),
        "remove" => {
            o.remove(u(op, "i"));
        }
        "swap_remove_back" => {
            o.swap_remove_back(u(op, "i"));
        }
        "swap_remove_front" => {
            o.swap_remove_front(u(op, "i"));
        }
        "resize" => o.resize(u(op, "n"), b(op, "v")),
        "truncate" => o.truncate(u(op, "n")),
        "clear" => o.clear(),
        "retain_ne" => {
            let v = b(op, "v");
            o.retain(|x| *x != v)
        }
        "retain_none" => o.retain(|_| false),
        "retain_all" => o.retain(|_| true),
        "shrink" => o.shrink_to_fit(),
        "done" => o.done(),
        other => panic!("unknown deque op {other}"),
    }
}
fn apply_map(o: &mut ObservableHashMap<u8, u8>, op: &Value) {
    use remoc::robs::hash_map::Entry;
    let (k, v) = (b(op, "k"), b(op, "v"));
    match op["o"].as_str().unwrap_or("") {
        "insert" => {
            o.insert(k, v);
        }
        "entry_insert" => match o.entry(k) {
            Entry::Occupied(mut e) => {
                e.insert(v);
            }
            Entry::Vacant(e) => {
                e.insert(v);
            }
        },
        "get_mut_set" => {
            if let Some(mut r) = o.get_mut(&k) {
                *r = v;
            }
        }
        "or_insert" => {
            o.entry(k).or_insert(v);
        }
        "and_modify_or_insert" => {
            o.entry(k).and_modify(|x| *x = v).or_insert(v);
        }
        "remove" => {
            o.remove(&k);
        }
        "entry_remove" => {
            if let Entry::Occupied(e) = o.entry(k) {
                e.remove();
            }
        }
        "iter_set" => {
            for mut r in o.iter_mut() {
                *r = v;
            }
        }
        "clear" => o.clear(),
        "retain_ne" => o.retain(|_, x| *x != v),
        "retain_none" => o.retain(|_, _| false),
        "retain_all" => o.retain(|_, _| true),
        "retain_mut" => o.retain(|_, x| {
            *x = v;
            true
        }),
        "shrink" => o.shrink_to_fit(),
        "done" => o.done(),
        other => panic!("unknown map op {other}"),
    }
}
fn apply_set(o: &mut ObservableHashSet<Keyed>, op: &Value) {
    let (k, p) = (b(op, "k"), b(op, "v"));
    match op["o"].as_str().unwrap_or("") {
        "insert" => {
            o.insert(Keyed { k, p });
        }
        "replace" => {
            o.replace(Keyed { k, p });
        }
        "remove" => {
            o.remove(&Keyed { k, p: 0 });
        }
        "take" => {
            o.take(&Keyed { k, p: 0 });
        }
        "clear" => o.clear(),
        "retain_ne" => o.retain(|x| x.k != k),
        "retain_none" => o.retain(|_| false),
        "retain_all" => o.retain(|_| true),
        "shrink" => o.shrink_to_fit(),
        "done" => o.done(),
        other => panic!("unknown set op {other}"),
    }
}

/// Everything that differs between the collection types.
macro_rules! run_script {
    ($obs:expr, $script:expr, $apply:expr, $obs_json:expr, $ev_json:expr, $mir_json:expr, $is_done:expr) => {{
        let script: &Value = $script;
        let mut obs = $obs;
        let ops = script["ops"].as_array().cloned().unwrap_or_default();
        let sub_at = script["sub_at"].as_u64().unwrap_or(0) as usize;
        let incr = script["mode"].as_str() == Some("incr");
        let buffer = script["buffer"].as_u64().unwrap_or(64) as usize;
        let max_size = script["max_size"].as_u64().unwrap_or(1000) as usize;
        let remote = script["remote"].as_bool().unwrap_or(false);
        let mut mirror = None;
        let mut manual = None;
        let mut conn_keep = None;
        // position ops.len() is "after the last operation" (the collection may already be done then)
        for i in 0..=ops.len() {
            if i == ops.len() && sub_at != i {
                break;
            }
            if i == sub_at {
                let s1 = if incr { obs.subscribe_incremental(buffer) } else { obs.subscribe(buffer) };
                let s1 = if remote {
                    // the mirror lives on another endpoint: the subscription travels over a real connection
                    let mut rng = Rng::new(script["seed"].as_u64().unwrap_or(1));
                    let (ca, cb) = (upper_cfg(&mut rng), upper_cfg(&mut rng));
                    let mut conn = rem_connect::<_, ()>(&ca, &cb, rng.next(), 0).await;
                    let (sres, rres) = tokio::join!(conn.a_tx.send(s1), conn.b_rx.recv());
                    sres.ok().expect("send subscription");
                    let sub = rres.ok().expect("recv subscription").expect("subscription");
                    conn_keep = Some(conn);
                    sub
                } else {
                    s1
                };
                let mut s2 = if incr { obs.subscribe_incremental(buffer) } else { obs.subscribe(buffer) };
                let initial = s2.take_initial();
                tr(json!({"ev": "robs_sub", "mode": if incr { "incr" } else { "snap" }, "at": i,
                          "initial": initial.as_ref().map(|c| $mir_json(c)).unwrap_or(json!([])), "has_initial": initial.is_some()}));
                mirror = Some(s1.mirror(max_size));
                manual = Some(s2);
            }
            if let Some(op) = ops.get(i) {
                tr(json!({"ev": "robs_op", "op": op}));
                let r = std::panic::catch_unwind(std::panic::AssertUnwindSafe(|| $apply(&mut obs, op)));
                if r.is_err() {
                    tr(json!({"ev": "robs_panic", "op": op}));
                    break;
                }
                tr(json!({"ev": "robs_state", "obs": $obs_json(&obs), "done": $is_done(&obs)}));
            }
            for _ in 0..(if remote { 120 } else { 6 }) {
                settle().await;
            }
            if let Some(sub) = manual.as_mut() {
                let mut evs = Vec::new();
                let mut err = "";
                loop {
                    match cancel_after(sub.recv(), 4).await {
                        Some(Ok(Some(e))) => evs.push($ev_json(&e)),
                        Some(Ok(None)) => break,
                        Some(Err(_)) => {
                            err = "recv_error";
                            break;
                        }
                        None => break,
                    }
                }
                tr(json!({"ev": "robs_events", "evs": evs, "err": err, "drained": true}));
            }
            if let Some(m) = mirror.as_ref() {
                match m.borrow().await {
                    Ok(r) => tr(json!({"ev": "robs_mirror", "contents": $mir_json(&*r), "complete": r.is_complete(), "done": r.is_done(), "err": ""})),
                    Err(e) => tr(json!({"ev": "robs_mirror", "contents": [], "complete": false, "done": false, "err": format!("{e:?}")})),
                }
            }
        }
        drop(mirror);
        drop(manual);
        drop(obs);
        if let Some(conn) = conn_keep {
            conn.pump.abort();
            for c in conn.conn {
                c.abort();
            }
        }
        settle().await;
    }};
}

pub async fn script_scenario(idx: u64, script: &Value) {
    let coll = script["coll"].as_str().unwrap_or("vec").to_string();
    tr(json!({"ev": "reset", "seed": idx, "wl": "robs", "coll": coll, "init": script["init"], "script": script}));
    install_spawn_policy(idx, 1, 4);
    let init = script["init"].as_array().cloned().unwrap_or_default();
    match coll.as_str() {
        "vec" => {
            let v: Vec<u8> = init.iter().map(|x| x.as_u64().unwrap_or(0) as u8).collect();
            run_script!(
                ObservableVec::<u8>::from(v),
                script,
                apply_vec,
                |o: &ObservableVec<u8>| json!(o.iter().copied().collect::<Vec<u8>>()),
                vec_event,
                |c: &Vec<u8>| json!(c),
                |o: &ObservableVec<u8>| o.is_done()
            )
        }
        "deque" => {
            let v: std::collections::VecDeque<u8> = init.iter().map(|x| x.as_u64().unwrap_or(0) as u8).collect();
            run_script!(
                ObservableVecDeque::<u8>::from(v),
                script,
                apply_deque,
                |o: &ObservableVecDeque<u8>| json!(o.iter().copied().collect::<Vec<u8>>()),
                deque_event,
                |c: &std::collections::VecDeque<u8>| json!(c.iter().copied().collect::<Vec<u8>>()),
                |o: &ObservableVecDeque<u8>| o.is_done()
            )
        }
        "map" => {
            let m: std::collections::HashMap<u8, u8> =
                init.iter().map(|x| (x[0].as_u64().unwrap_or(0) as u8, x[1].as_u64().unwrap_or(0) as u8)).collect();
            run_script!(
                ObservableHashMap::<u8, u8>::from(m),
                script,
                apply_map,
                |o: &ObservableHashMap<u8, u8>| map_json(o.iter()),
                map_event,
                |c: &std::collections::HashMap<u8, u8>| map_json(c.iter()),
                |o: &ObservableHashMap<u8, u8>| o.is_done()
            )
        }
        "set" => {
            let m: std::collections::HashSet<Keyed> =
                init.iter().map(|x| Keyed { k: x[0].as_u64().unwrap_or(0) as u8, p: x[1].as_u64().unwrap_or(0) as u8 }).collect();
            run_script!(
                ObservableHashSet::<Keyed>::from(m),
                script,
                apply_set,
                |o: &ObservableHashSet<Keyed>| set_json(o.iter()),
                set_event,
                |c: &std::collections::HashSet<Keyed>| set_json(c.iter()),
                |o: &ObservableHashSet<Keyed>| o.is_done()
            )
        }
        _ => list_script(script).await,
    }
}

/// The append-only list has its own subscription type.
async fn list_script(script: &Value) {
    let init: Vec<u8> = script["init"].as_array().cloned().unwrap_or_default().iter().map(|x| x.as_u64().unwrap_or(0) as u8).collect();
    let mut obs = ObservableList::<u8>::new();
    for v in &init {
        obs.push(*v);
    }
    let ops = script["ops"].as_array().cloned().unwrap_or_default();
    let sub_at = script["sub_at"].as_u64().unwrap_or(0) as usize;
    let max_size = script["max_size"].as_u64().unwrap_or(1000) as usize;
    let mut mirror = None;
    let mut manual = None;
    for i in 0..=ops.len() {
        if i == ops.len() && sub_at != i {
            break;
        }
        if i == sub_at {
            tr(json!({"ev": "robs_sub", "mode": "incr", "at": i, "initial": [], "has_initial": false}));
            mirror = Some(obs.subscribe().mirror(max_size));
            manual = Some(obs.subscribe());
        }
        if let Some(op) = ops.get(i) {
            tr(json!({"ev": "robs_op", "op": op}));
            match op["o"].as_str().unwrap_or("") {
                "push" => obs.push(b(op, "v")),
                "done" => obs.done(),
                _ => {}
            }
            let contents: Vec<u8> = obs.borrow().await.iter().copied().collect();
            tr(json!({"ev": "robs_state", "obs": contents, "done": obs.is_done()}));
        }
        for _ in 0..8 {
            settle().await;
        }
        if let Some(sub) = manual.as_mut() {
            let mut evs = Vec::new();
            let mut err = "";
            loop {
                match cancel_after(sub.recv(), 6).await {
                    Some(Ok(Some(e))) => evs.push(list_event(&e)),
                    Some(Ok(None)) => break,
                    Some(Err(_)) => {
                        err = "recv_error";
                        break;
                    }
                    None => break,
                }
            }
            tr(json!({"ev": "robs_events", "evs": evs, "err": err, "drained": true}));
        }
        if let Some(m) = mirror.as_ref() {
            match m.borrow().await {
                Ok(r) => tr(json!({"ev": "robs_mirror", "contents": r.iter().copied().collect::<Vec<u8>>(), "complete": r.is_complete(), "done": r.is_done(), "err": ""})),
                Err(e) => tr(json!({"ev": "robs_mirror", "contents": [], "complete": false, "done": false, "err": format!("{e:?}")})),
            }
        }
    }
    drop(mirror);
    drop(manual);
    drop(obs);
    settle().await;
}

// ------------------------------------------------------------------------------------------------ concurrent chain
// observable -> mirror M1 -> (subscribe at a random moment, while events are being applied and readers hold M1) -> M2.
// Every M2 must end up equal to the final contents of the observable: the snapshot and the event subscription of
// a mirror have to be taken atomically.

macro_rules! run_chain {
    ($seed:expr, $obs:expr, $mutate:expr, $obs_json:expr, $mir_json:expr) => {{
        let seed: u64 = $seed;
        let mut rng = Rng::new(seed ^ 0xC4A1);
        let mut obs = $obs;
        let incr1 = rng.chance(1, 2);
        let s1 = if incr1 { obs.subscribe_incremental(256) } else { obs.subscribe(256) };
        let m1 = std::sync::Arc::new(s1.mirror(1000));
        let mut handles: Vec<tokio::task::JoinHandle<()>> = Vec::new();
        let nops = rng.range(8, 20);
        let mut r0 = Rng::new(seed * 5 + 1);
        handles.push(spawn_d(1, async move {
            for i in 0..nops {
                $mutate(&mut obs, &mut r0, i as u8 + 1);
                tr(json!({"ev": "chain_op", "i": i, "obs": $obs_json(&obs)}));
                yields(r0.below(5)).await;
            }
            obs.done();
            tr(json!({"ev": "chain_final", "obs": $obs_json(&obs)}));
            // keep the observable alive until every mirror has caught up
            yields(400).await;
        }));
        // readers that hold the mirror's read guard across suspension points
        for v in 0..rng.range(1, 2) {
            let m = m1.clone();
            let mut r = Rng::new(seed * 5 + 10 + v);
            handles.push(spawn_d(1, async move {
                for _ in 0..30 {
                    match m.borrow().await {
                        Ok(g) => {
                            yields(r.range(1, 5)).await;
                            drop(g);
                        }
                        Err(_) => return,
                    }
                    yields(r.below(3)).await;
                }
            }));
        }
        for j in 0..rng.range(1, 3) {
            let m = m1.clone();
            let mut r = Rng::new(seed * 5 + 20 + j);
            let incr = rng.chance(1, 2);
            handles.push(spawn_d(1, async move {
                yields(r.below(40)).await;
                tr(json!({"ev": "chain_sub_start", "sub": j, "incr": incr}));
                let sub = if incr { m.subscribe_incremental(256).await } else { m.subscribe(256).await };
                let sub = match sub {
                    Ok(s) => s,
                    Err(e) => {
                        tr(json!({"ev": "chain_mirror", "sub": j, "contents": [], "done": false, "err": format!("{e:?}")}));
                        return;
                    }
                };
                tr(json!({"ev": "chain_sub_done", "sub": j}));
                let mut m2 = sub.mirror(1000);
                loop {
                    match m2.borrow_and_update().await {
                        Ok(g) if g.is_done() => {
                            tr(json!({"ev": "chain_mirror", "sub": j, "contents": $mir_json(&*g), "done": true, "err": ""}));
                            return;
                        }
                        Ok(g) => drop(g),
                        Err(e) => {
                            tr(json!({"ev": "chain_mirror", "sub": j, "contents": [], "done": false, "err": format!("{e:?}")}));
                            return;
                        }
                    }
                    m2.changed().await;
                }
            }));
        }
        let left = wait_tasks(&mut handles, &[], 3000).await;
        tr(json!({"ev": "chain_end", "pending": left}));
        for h in handles {
            h.abort();
        }
        drop(m1);
        settle().await;
    }};
}

pub async fn chain_scenario(seed: u64, coll: u64) {
    let coll = ["vec", "deque", "map", "set"][(if coll >= 4 { seed % 4 } else { coll }) as usize];
    tr(json!({"ev": "reset", "seed": seed, "wl": "robs_chain", "coll": coll}));
    install_spawn_policy(seed, 1, 3);
    match coll {
        "vec" => run_chain!(
            seed,
            ObservableVec::<u8>::new(),
            |o: &mut ObservableVec<u8>, r: &mut Rng, v: u8| match r.below(6) {
                0 if !o.is_empty() => {
                    o.pop();
                }
                1 if !o.is_empty() => {
                    o.remove(0);
                }
                2 => o.insert(0, v),
                _ => o.push(v),
            },
            |o: &ObservableVec<u8>| json!(o.iter().copied().collect::<Vec<u8>>()),
            |c: &Vec<u8>| json!(c)
        ),
        "deque" => run_chain!(
            seed,
            ObservableVecDeque::<u8>::new(),
            |o: &mut ObservableVecDeque<u8>, r: &mut Rng, v: u8| match r.below(6) {
                0 if !o.is_empty() => {
                    o.pop_front();
                }
                1 if !o.is_empty() => {
                    o.pop_back();
                }
                2 => o.push_front(v),
                3 => {
                    let n = o.len();
                    o.insert(n, v)
                }
                _ => o.push_back(v),
            },
            |o: &ObservableVecDeque<u8>| json!(o.iter().copied().collect::<Vec<u8>>()),
            |c: &std::collections::VecDeque<u8>| json!(c.iter().copied().collect::<Vec<u8>>())
        ),
        "map" => run_chain!(
            seed,
            ObservableHashMap::<u8, u8>::new(),
            |o: &mut ObservableHashMap<u8, u8>, r: &mut Rng, v: u8| match r.below(4) {
                0 => {
                    o.remove(&(r.below(4) as u8));
                }
                _ => {
                    o.insert(r.below(4) as u8, v);
                }
            },
            |o: &ObservableHashMap<u8, u8>| map_json(o.iter()),
            |c: &std::collections::HashMap<u8, u8>| map_json(c.iter())
        ),
        _ => run_chain!(
            seed,
            ObservableHashSet::<Keyed>::new(),
            |o: &mut ObservableHashSet<Keyed>, r: &mut Rng, v: u8| match r.below(4) {
                0 => {
                    o.remove(&Keyed { k: r.below(4) as u8, p: 0 });
                }
                _ => {
                    o.replace(Keyed { k: r.below(4) as u8, p: v });
                }
            },
            |o: &ObservableHashSet<Keyed>| set_json(o.iter()),
            |c: &std::collections::HashSet<Keyed>| set_json(c.iter())
        ),
    }
}

// ------------------------------------------------------------------------------------------------ error cases (C14)
// A mirror and a hand consumer of a subscription that lags (tiny event buffer, bursts of mutations), whose observed
// collection is dropped before done, whose size limit is exceeded, or whose connection is cut.  Everything the mirror
// shows is logged, as is every state of the observed collection: the mirror may only show states of that history,
// in order, and must report an error whenever it stops following it.

macro_rules! run_err {
    ($seed:expr, $case:expr, $coll:expr, $obs:expr, $mutate:expr, $obs_json:expr, $mir_json:expr, $ev_json:expr) => {{
        let seed: u64 = $seed;
        let case: &str = $case;
        let mut rng = Rng::new(seed ^ 0xE44);
        let mut obs = $obs;
        let (ca, cb) = (upper_cfg(&mut rng), upper_cfg(&mut rng));
        let buffer = if case == "lag" { rng.range(1, 3) as usize } else { 256 };
        let max_size = if case == "max_size" { rng.range(2, 4) as usize } else { 1000 };
        let remote = case == "cut" || (case != "lag" && rng.chance(1, 3));
        let incr = rng.chance(1, 2);
        tr(json!({"ev": "reset", "seed": seed, "wl": "robs_err", "coll": $coll, "case": case, "buffer": buffer, "max_size": max_size, "remote": remote, "incr": incr}));
        for i in 0..rng.below(3) {
            $mutate(&mut obs, &mut rng, 200 + i as u8, case == "max_size");
        }
        tr(json!({"ev": "e_state", "i": 0, "obs": $obs_json(&obs)}));
        let s_m = if incr { obs.subscribe_incremental(buffer) } else { obs.subscribe(buffer) };
        let mut s_h = if incr { obs.subscribe_incremental(buffer) } else { obs.subscribe(buffer) };
        let mut links = Vec::new();
        let mut conn_keep = None;
        let s_m = if remote {
            let mut conn = rem_connect::<_, ()>(&ca, &cb, seed, 0).await;
            let r = xfer(&mut conn.a_tx, &mut conn.b_rx, s_m).await;
            links.extend(conn.links());
            conn_keep = Some(conn);
            match r {
                Some(s) => s,
                None => {
                    tr(json!({"ev": "e_end", "pending": 0, "skipped": true}));
                    return;
                }
            }
        } else {
            s_m
        };
        let initial = s_h.take_initial();
        tr(json!({"ev": "e_sub", "has_initial": initial.is_some(), "initial": initial.as_ref().map(|c| $mir_json(c)).unwrap_or(json!([]))}));
        let mirror = s_m.mirror(max_size);
        let mut handles: Vec<tokio::task::JoinHandle<()>> = Vec::new();
        // observer of the mirror
        let mut r1 = Rng::new(seed * 3 + 1);
        handles.push(spawn_d(if remote { 2 } else { 1 }, async move {
            let mut mirror = mirror;
            // 0: keep watching, 1: done, 2: failed
            let mut state = 0;
            while state == 0 {
                yields(r1.below(12)).await;
                state = match mirror.borrow_and_update().await {
                    Ok(g) => {
                        tr(json!({"ev": "e_mirror", "contents": $mir_json(&*g), "complete": g.is_complete(), "done": g.is_done()}));
                        if g.is_done() { 1 } else { 0 }
                    }
                    Err(e) => {
                        tr(json!({"ev": "e_mirror_err", "kind": format!("{e:?}").split('(').next().unwrap_or("").to_string()}));
                        2
                    }
                };
                if state == 0 {
                    mirror.changed().await;
                }
            }
            if state == 2 {
                // the error is sticky, the last consistent contents stay retrievable
                let again = mirror.borrow().await.is_err();
                tr(json!({"ev": "e_mirror_again", "err": again}));
            }
            tr(json!({"ev": "e_detach", "contents": $mir_json(&mirror.detach().await)}));
        }));
        // hand consumer (slow)
        let mut r2 = Rng::new(seed * 3 + 2);
        handles.push(spawn_d(1, async move {
            loop {
                yields(r2.below(if case == "lag" { 30 } else { 6 })).await;
                match s_h.recv().await {
                    Ok(Some(e)) => tr(json!({"ev": "e_ev", "e": $ev_json(&e)})),
                    Ok(None) => {
                        tr(json!({"ev": "e_ev_end"}));
                        return;
                    }
                    Err(e) => {
                        tr(json!({"ev": "e_ev_err", "kind": format!("{e:?}").split('(').next().unwrap_or("").to_string()}));
                        return;
                    }
                }
            }
        }));
        let n = rng.range(6, 16);
        for i in 1..=n {
            $mutate(&mut obs, &mut rng, i as u8, case == "max_size");
            tr(json!({"ev": "e_state", "i": i, "obs": $obs_json(&obs)}));
            // bursts: in the lag case most mutations follow each other without giving the subscribers a turn
            let gap = if case == "lag" { if rng.chance(1, 4) { rng.below(40) } else { 0 } } else { rng.below(8) };
            yields(gap).await;
            if case == "cut" && i == n / 2 {
                if let Some(conn) = &conn_keep {
                    tr(json!({"ev": "fault", "kind": "cut"}));
                    for l in [&conn.ab, &conn.ba] {
                        l.set(|st| {
                            st.sink_err = true;
                            st.stream_err = true;
                        });
                    }
                }
            }
        }
        if case == "drop" {
            tr(json!({"ev": "e_drop"}));
            drop(obs);
        } else {
            obs.done();
            tr(json!({"ev": "e_done"}));
            // the collection stays alive until the subscribers are through
            handles.push(spawn_d(1, async move {
                yields(3000).await;
                drop(obs);
            }));
        }
        let left = wait_tasks(&mut handles, &links, 4000).await;
        tr(json!({"ev": "e_end", "pending": left}));
        for h in handles {
            h.abort();
        }
        if let Some(conn) = conn_keep {
            conn.pump.abort();
            for c in conn.conn {
                c.abort();
            }
        }
        settle().await;
    }};
}

/// "An event does not apply": the mirror is built from a subscription whose snapshot was taken away, so it starts
/// empty while the events refer to the real contents.  Every operation is logged in the vocabulary of Robs.tla; the
/// trace specification derives the events (Robs!Emits) and what a mirror starting empty must show - up to the first
/// event that does not apply, where it has to report InvalidIndex.
async fn inapplicable_scenario(seed: u64, deque: bool) {
    let mut rng = Rng::new(seed ^ 0x1AA9);
    let coll = if deque { "deque" } else { "vec" };
    tr(json!({"ev": "reset", "seed": seed, "wl": "robs_err", "coll": coll, "case": "inapplicable", "buffer": 256, "max_size": 1000, "remote": false, "incr": false}));
    let n0 = rng.range(1, 3) as usize;
    let init: Vec<u8> = (0..n0).map(|i| 100 + i as u8).collect();
    let nops = rng.range(3, 8);
    let mut len = n0;
    let mut ops = Vec::new();
    for i in 0..nops {
        let v = i as u8 + 1;
        let op = match rng.below(6) {
            0 | 1 if len > 0 => {
                let idx = rng.below(len as u64);
                len -= 1;
                json!({"o": "remove", "i": idx})
            }
            2 => {
                let idx = rng.below(len as u64 + 1);
                len += 1;
                json!({"o": "insert", "i": idx, "v": v})
            }
            3 if len > 0 => json!({"o": "set", "i": rng.below(len as u64), "v": v}),
            _ => {
                len += 1;
                if deque { json!({"o": "push_back", "v": v}) } else { json!({"o": "push", "v": v}) }
            }
        };
        ops.push(op);
    }
    macro_rules! go {
        ($obs:expr, $apply:expr, $json:expr, $mjson:expr) => {{
            let mut obs = $obs;
            tr(json!({"ev": "e_state", "i": 0, "obs": $json(&obs)}));
            let mut sub = obs.subscribe(256);
            let _taken = sub.take_initial();
            tr(json!({"ev": "e_sub_stripped"}));
            let mut mirror = sub.mirror(1000);
            for (i, op) in ops.iter().enumerate() {
                tr(json!({"ev": "e_op", "op": op}));
                $apply(&mut obs, op);
                tr(json!({"ev": "e_state", "i": i + 1, "obs": $json(&obs)}));
                for _ in 0..8 {
                    settle().await;
                }
                match mirror.borrow_and_update().await {
                    Ok(g) => tr(json!({"ev": "e_mirror", "contents": $mjson(&*g), "complete": true, "done": g.is_done()})),
                    Err(e) => tr(json!({"ev": "e_mirror_err", "kind": format!("{e:?}").split('(').next().unwrap_or("").to_string()})),
                }
            }
            obs.done();
            tr(json!({"ev": "e_done"}));
            for _ in 0..8 {
                settle().await;
            }
            match mirror.borrow_and_update().await {
                Ok(g) => tr(json!({"ev": "e_mirror", "contents": $mjson(&*g), "complete": true, "done": g.is_done()})),
                Err(e) => tr(json!({"ev": "e_mirror_err", "kind": format!("{e:?}").split('(').next().unwrap_or("").to_string()})),
            }
            tr(json!({"ev": "e_detach", "contents": $mjson(&mirror.detach().await)}));
            tr(json!({"ev": "e_end", "pending": 0}));
            drop(obs);
            settle().await;
        }};
    }
    if deque {
        go!(
            ObservableVecDeque::<u8>::from(init.iter().copied().collect::<std::collections::VecDeque<u8>>()),
            apply_deque,
            |o: &ObservableVecDeque<u8>| json!(o.iter().copied().collect::<Vec<u8>>()),
            |c: &std::collections::VecDeque<u8>| json!(c.iter().copied().collect::<Vec<u8>>())
        )
    } else {
        go!(
            ObservableVec::<u8>::from(init.clone()),
            apply_vec,
            |o: &ObservableVec<u8>| json!(o.iter().copied().collect::<Vec<u8>>()),
            |c: &Vec<u8>| json!(c)
        )
    }
}

pub async fn err_scenario(seed: u64, coll: u64, case: u64) {
    let coll = ["vec", "deque", "map", "set"][(if coll >= 4 { seed % 4 } else { coll }) as usize];
    let case = ["lag", "drop", "max_size", "cut", "plain", "inapplicable"][(if case >= 6 { (seed / 4) % 6 } else { case }) as usize];
    install_spawn_policy(seed, 1, 3);
    if case == "inapplicable" {
        return inapplicable_scenario(seed, seed % 2 == 1).await;
    }
    match coll {
        "vec" => run_err!(
            seed,
            case,
            coll,
            ObservableVec::<u8>::new(),
            |o: &mut ObservableVec<u8>, r: &mut Rng, v: u8, grow: bool| match r.below(if grow { 2 } else { 6 }) {
                2 if !o.is_empty() => {
                    o.pop();
                }
                3 if !o.is_empty() => {
                    o.remove(0);
                }
                4 => o.insert(0, v),
                _ => o.push(v),
            },
            |o: &ObservableVec<u8>| json!(o.iter().copied().collect::<Vec<u8>>()),
            |c: &Vec<u8>| json!(c),
            vec_event
        ),
        "deque" => run_err!(
            seed,
            case,
            coll,
            ObservableVecDeque::<u8>::new(),
            |o: &mut ObservableVecDeque<u8>, r: &mut Rng, v: u8, grow: bool| match r.below(if grow { 2 } else { 6 }) {
                2 if !o.is_empty() => {
                    o.pop_front();
                }
                3 if !o.is_empty() => {
                    o.pop_back();
                }
                4 => o.push_front(v),
                _ => o.push_back(v),
            },
            |o: &ObservableVecDeque<u8>| json!(o.iter().copied().collect::<Vec<u8>>()),
            |c: &std::collections::VecDeque<u8>| json!(c.iter().copied().collect::<Vec<u8>>()),
            deque_event
        ),
        "map" => run_err!(
            seed,
            case,
            coll,
            ObservableHashMap::<u8, u8>::new(),
            |o: &mut ObservableHashMap<u8, u8>, r: &mut Rng, v: u8, grow: bool| match r.below(if grow { 1 } else { 4 }) {
                1 => {
                    o.remove(&(r.below(6) as u8));
                }
                _ => {
                    o.insert(if grow { v } else { r.below(6) as u8 }, v);
                }
            },
            |o: &ObservableHashMap<u8, u8>| map_json(o.iter()),
            |c: &std::collections::HashMap<u8, u8>| map_json(c.iter()),
            map_event
        ),
        _ => run_err!(
            seed,
            case,
            coll,
            ObservableHashSet::<Keyed>::new(),
            |o: &mut ObservableHashSet<Keyed>, r: &mut Rng, v: u8, grow: bool| match r.below(if grow { 1 } else { 4 }) {
                1 => {
                    o.remove(&Keyed { k: r.below(6) as u8, p: 0 });
                }
                _ => {
                    o.replace(Keyed { k: if grow { v } else { r.below(6) as u8 }, p: v });
                }
            },
            |o: &ObservableHashSet<Keyed>| set_json(o.iter()),
            |c: &std::collections::HashSet<Keyed>| set_json(c.iter()),
            set_event
        ),
    }
}

/// Append-only list: subscribers joining at any time and consuming at any pace get every element exactly once, in
/// order, and never lag.
pub async fn list_scenario(seed: u64) {
    let mut rng = Rng::new(seed ^ 0x1157);
    tr(json!({"ev": "reset", "seed": seed, "wl": "robs_list", "coll": "list", "case": "list"}));
    install_spawn_policy(seed, 1, 3);
    let mut obs = ObservableList::<u32>::new();
    // a distributor handle (what an application hands to the parts that only subscribe) outlives the list in half
    // of the scenarios
    let dist = obs.distributor();
    let keep_dist = rng.chance(1, 2);
    let n = rng.range(5, 40) as u32;
    let mut handles: Vec<tokio::task::JoinHandle<()>> = Vec::new();
    let mut next_sub = 1u64;
    let ending = rng.below(3); // 0 done, 1 dropped without done, 2 done
    for v in 1..=n {
        if next_sub <= 4 && rng.chance(1, 6) {
            let mut sub = if rng.chance(1, 2) { dist.subscribe() } else { obs.subscribe() };
            let id = next_sub;
            next_sub += 1;
            let mut r = Rng::new(seed * 9 + id);
            let slow = r.chance(1, 2);
            tr(json!({"ev": "l_sub", "sub": id, "after": v - 1}));
            handles.push(spawn_d(1, async move {
                loop {
                    yields(r.below(if slow { 60 } else { 4 })).await;
                    match sub.recv().await {
                        Ok(Some(ListEvent::Push(x))) => tr(json!({"ev": "l_recv", "sub": id, "v": x})),
                        Ok(Some(ListEvent::Done)) => tr(json!({"ev": "l_recv_done", "sub": id})),
                        Ok(Some(_)) => {}
                        Ok(None) => {
                            tr(json!({"ev": "l_end", "sub": id, "how": "none"}));
                            return;
                        }
                        Err(e) => {
                            tr(json!({"ev": "l_end", "sub": id, "how": format!("{e:?}").split('(').next().unwrap_or("").to_string()}));
                            return;
                        }
                    }
                }
            }));
        }
        obs.push(v);
        tr(json!({"ev": "l_push", "v": v}));
        yields(if rng.chance(1, 3) { rng.below(10) } else { 0 }).await;
    }
    // without keep_dist the distributor handle goes away now, otherwise it outlives the whole scenario
    let dist = if keep_dist { Some(dist) } else { None };
    if ending == 1 {
        tr(json!({"ev": "l_drop", "distributor_alive": keep_dist}));
        drop(obs);
    } else {
        obs.done();
        tr(json!({"ev": "l_done", "n": n}));
        handles.push(spawn_d(1, async move {
            yields(6000).await;
            drop(obs);
        }));
    }
    let left = wait_tasks(&mut handles, &[], 4000).await;
    tr(json!({"ev": "l_fin", "pending": left}));
    drop(dist);
    for h in handles {
        h.abort();
    }
    settle().await;
}
