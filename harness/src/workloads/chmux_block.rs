//! Port blocking workload (C03): several ports of one connection whose receivers never consume are driven
//! to exhaustion with data and port-open batches; a healthy port of the same connection must keep working.

use super::*;
use remoc::chmux::{PortReq, Receiver, Sender};
use std::sync::Arc;
use tokio::sync::Mutex as AMutex;

enum R {
    Send(Result<(), &'static str>),
    Recv(Option<Vec<u8>>),
}

pub async fn scenario(seed: u64) {
    let mut rng = Rng::new(seed ^ 0xB10C);
    let mut cfg_a = EpCfg::small(&mut rng);
    let mut cfg_b = EpCfg::small(&mut rng);
    cfg_a.max_ports = 32;
    cfg_b.max_ports = 32;
    cfg_a.connect_q = 8;
    cfg_b.connect_q = 8;
    tr(json!({"ev": "reset", "seed": seed, "wl": "block", "cfg": [cfg_a.json(), cfg_b.json()]}));
    install_spawn_policy(seed, 1, 4);
    let mut conn = Conn::establish(&cfg_a, &cfg_b).await;
    let nstalled = cfg_a.shared_q as u64 + rng.range(1, 2);
    let mut pairs: Vec<((Sender, Receiver), (Sender, Receiver))> = Vec::new();
    {
        let client = conn.client[0].clone().unwrap();
        let mut listener = conn.listener[1].take().unwrap();
        let (pab, pba) = (conn.ab.clone(), conn.ba.clone());
        let pump = tokio::spawn(async move {
            loop {
                pab.deliver();
                pba.deliver();
                tokio::task::yield_now().await;
            }
        });
        for _ in 0..=nstalled {
            let c = client.clone();
            let cf = Labeled::new(1, async move { c.connect().await });
            let sf = Labeled::new(2, listener.accept());
            let (c, s) = tokio::join!(cf, sf);
            pairs.push((c.expect("connect"), s.expect("accept").expect("some")));
        }
        pump.abort();
        conn.listener[1] = Some(listener);
    }
    conn.flush().await;
    for ((atx, _), (btx, _)) in &pairs {
        tr(json!({"ev": "open", "ep": 1, "local": p32(atx.local_port()), "remote": p32(atx.remote_port())}));
        tr(json!({"ev": "open", "ep": 2, "local": p32(btx.local_port()), "remote": p32(btx.remote_port())}));
    }
    let mut next_op = 1u64;
    let mut ops: Vec<Op<R>> = Vec::new();
    let mut keep: Vec<Box<dyn std::any::Any + Send>> = Vec::new();
    let mut healthy: Option<(Arc<AMutex<Sender>>, Arc<AMutex<Receiver>>, u32, u32)> = None;
    // stalled ports: B never calls recv on them
    for (i, ((atx, arx), (btx, brx))) in pairs.into_iter().enumerate() {
        if i as u64 == nstalled {
            let (al, bl) = (atx.local_port(), brx.local_port());
            healthy = Some((Arc::new(AMutex::new(atx)), Arc::new(AMutex::new(brx)), al, bl));
            keep.push(Box::new((arx, btx)));
            continue;
        }
        let id = next_op;
        next_op += 1;
        let port = p32(atx.local_port());
        let tx = Arc::new(AMutex::new(atx));
        if rng.chance(1, 2) {
            let len = cfg_b.rbuf as usize + rng.range(1, 8) as usize;
            let data: Vec<u8> = (0..len).map(|j| ((id * 37 + j as u64 * 11 + 1) % 251) as u8).collect();
            tr(json!({"ev": "api_start", "op": id, "ep": 1, "kind": "send", "port": port, "data": bytes_json(&data)}));
            let txc = tx.clone();
            ops.push(Op::new(id, 1, async move {
                let mut g = txc.lock_owned().await;
                R::Send(g.send(Bytes::from(data)).await.map_err(|e| send_err_class(&e)))
            }));
        } else {
            let n = (cfg_b.rbuf as usize / 4) + 1 + rng.below(2) as usize;
            let alloc = tx.try_lock().unwrap().port_allocator();
            let reqs: Vec<PortReq> = (0..n).filter_map(|_| alloc.try_allocate().map(PortReq::new)).collect();
            tr(json!({"ev": "api_start", "op": id, "ep": 1, "kind": "connect", "port": port, "n": reqs.len(), "wait": true}));
            let txc = tx.clone();
            ops.push(Op::new(id, 1, async move {
                let mut g = txc.lock_owned().await;
                R::Send(g.connect(reqs, true).await.map(|c| drop(c)).map_err(|e| send_err_class(&e)))
            }));
        }
        keep.push(Box::new((tx, arx, btx, brx)));
    }
    // drive the stalled operations until they are all blocked
    for _ in 0..400 {
        for o in ops.iter_mut() {
            if o.runnable() {
                let _ = o.poll();
            }
        }
        conn.ab.deliver();
        conn.ba.deliver();
        settle().await;
    }
    // healthy port: three messages must get through
    let (htx, hrx, al, bl) = healthy.unwrap();
    let mut sent = 0;
    let mut send_op: Option<Op<R>> = None;
    let mut recv_op: Option<Op<R>> = None;
    let mut got = 0;
    let mut idle = 0;
    for _ in 0..6000 {
        let mut acted = false;
        match rng.below(6) {
            0 if send_op.is_none() && sent < 3 => {
                sent += 1;
                let id = next_op;
                next_op += 1;
                let len = rng.range(1, cfg_b.max_data as u64) as usize;
                let data: Vec<u8> = (0..len).map(|j| ((id * 37 + j as u64 * 11 + 1) % 251) as u8).collect();
                tr(json!({"ev": "api_start", "op": id, "ep": 1, "kind": "send", "port": p32(al), "data": bytes_json(&data)}));
                let tx = htx.clone();
                send_op = Some(Op::new(id, 1, async move {
                    let mut g = tx.lock_owned().await;
                    R::Send(g.send(Bytes::from(data)).await.map_err(|e| send_err_class(&e)))
                }));
                acted = true;
            }
            1 if send_op.as_ref().is_some_and(|o| o.runnable()) => {
                let op = send_op.as_mut().unwrap();
                if let Polled::Ready(R::Send(r)) = op.poll() {
                    match r {
                        Ok(()) => tr(json!({"ev": "api_done", "op": op.id, "res": "ok"})),
                        Err(e) => tr(json!({"ev": "api_done", "op": op.id, "res": "err", "err": e})),
                    }
                    send_op = None;
                }
                acted = true;
            }
            2 if recv_op.is_none() && got < 3 => {
                let id = next_op;
                next_op += 1;
                tr(json!({"ev": "api_start", "op": id, "ep": 2, "kind": "recv_any", "port": p32(bl)}));
                let rx = hrx.clone();
                recv_op = Some(Op::new(id, 2, async move {
                    let mut g = rx.lock_owned().await;
                    R::Recv(g.recv().await.ok().flatten().map(Vec::<u8>::from))
                }));
                acted = true;
            }
            3 if recv_op.as_ref().is_some_and(|o| o.runnable()) => {
                let op = recv_op.as_mut().unwrap();
                if let Polled::Ready(R::Recv(r)) = op.poll() {
                    match r {
                        Some(v) => {
                            got += 1;
                            tr(json!({"ev": "api_done", "op": op.id, "res": "data", "data": bytes_json(&v)}))
                        }
                        None => tr(json!({"ev": "api_done", "op": op.id, "res": "none"})),
                    }
                    recv_op = None;
                }
                acted = true;
            }
            4 => acted = conn.ab.deliver(),
            _ => acted = conn.ba.deliver(),
        }
        for o in ops.iter_mut() {
            if o.runnable() {
                let _ = o.poll();
            }
        }
        settle().await;
        idle = if acted { 0 } else { idle + 1 };
        if idle > 80 && conn.ab.pending() == 0 && conn.ba.pending() == 0 {
            break;
        }
    }
    // make sure the healthy receiver is waiting when the verdict is drawn
    if recv_op.is_none() {
        let id = next_op;
        tr(json!({"ev": "api_start", "op": id, "ep": 2, "kind": "recv_any", "port": p32(bl)}));
        let rx = hrx.clone();
        let mut op = Op::new(id, 2, async move {
            let mut g = rx.lock_owned().await;
            R::Recv(g.recv().await.ok().flatten().map(Vec::<u8>::from))
        });
        let _ = op.poll();
        recv_op = Some(op);
        for _ in 0..50 {
            conn.flush().await;
        }
    }
    let mut pending: Vec<u64> = ops.iter().map(|o| o.id).collect();
    pending.extend(send_op.iter().map(|o| o.id));
    pending.extend(recv_op.iter().map(|o| o.id));
    tr(json!({"ev": "quiescent", "pending": pending}));
    for o in ops.drain(..).chain(send_op).chain(recv_op) {
        tr(json!({"ev": "api_cancel", "op": o.id, "polls": o.polls}));
        drop(o);
    }
    drop(keep);
    drop(htx);
    drop(hrx);
    tr(json!({"ev": "all_dropped"}));
    conn.teardown().await;
}
