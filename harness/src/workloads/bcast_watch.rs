//! Broadcast (C16) and watch (C15) channel workloads: one sender of increasing integers, several subscribers /
//! receivers (local and remote, joining, cloned or transferred at random moments) consuming at random paces.

use super::*;
use remoc::rch::{broadcast, watch};
use std::sync::atomic::{AtomicU64, Ordering};

static SENT: AtomicU64 = AtomicU64::new(0);

// ------------------------------------------------------------------------------------------------ broadcast

async fn bc_subscriber(mut rx: broadcast::Receiver<u32>, sub: u64, fast: bool, mut rng: Rng, leave_after: u64) {
    let mut got = 0u64;
    loop {
        if !fast {
            yields(rng.below(25)).await;
        }
        match rx.recv().await {
            Ok(v) => {
                got += 1;
                tr(json!({"ev": "bc_recv", "sub": sub, "r": "val", "v": v}));
                if fast {
                    FAST_SEEN.store(got, Ordering::SeqCst);
                }
            }
            Err(broadcast::RecvError::Lagged) => tr(json!({"ev": "bc_recv", "sub": sub, "r": "lagged"})),
            Err(broadcast::RecvError::Closed) => {
                tr(json!({"ev": "bc_recv", "sub": sub, "r": "closed"}));
                return;
            }
            Err(_) => {
                tr(json!({"ev": "bc_recv", "sub": sub, "r": "err"}));
                return;
            }
        }
        if got >= leave_after {
            tr(json!({"ev": "bc_unsub", "sub": sub}));
            return;
        }
    }
}

/// `calm`: there is no subscriber that keeps up; after the seeded phase (bursts make every subscriber lag) the sender
/// pauses and then sends a few more values with long gaps - every subscriber has room then and must get them.
pub async fn broadcast_scenario(seed: u64, remote: bool, cut: bool, calm: bool) {
    let mut rng = Rng::new(seed ^ 0xBCA5);
    SENT.store(0, Ordering::SeqCst);
    FAST_SEEN.store(0, Ordering::SeqCst);
    tr(json!({"ev": "reset", "seed": seed, "wl": "bcast", "remote": remote, "cut": cut, "calm": calm}));
    install_spawn_policy(seed, 1, 4);
    let tx = broadcast::Sender::<u32>::new();
    let mut handles: Vec<tokio::task::JoinHandle<()>> = Vec::new();
    let mut links = Vec::new();
    let mut conn_keep = None;
    let mut next_sub = 1u64;
    // a subscriber that keeps up: it drains before the next value is sent (see below)
    let fast_id = next_sub;
    if !calm {
        let fast_rx = tx.subscribe::<2>(rng.range(1, 2) as usize);
        tr(json!({"ev": "bc_sub", "sub": next_sub, "fast": true, "remote": false, "after": 0}));
        handles.push(spawn_d(1, bc_subscriber(fast_rx, next_sub, true, Rng::new(seed * 7 + next_sub), u64::MAX)));
        next_sub += 1;
    }
    let nvals = rng.range(6, 14);
    let mut conn: Option<RemConn<broadcast::Receiver<u32>, ()>> = None;
    if remote {
        let (ca, cb) = (upper_cfg(&mut rng), upper_cfg(&mut rng));
        let c = rem_connect::<broadcast::Receiver<u32>, ()>(&ca, &cb, seed, 0).await;
        links = c.links();
        conn = Some(c);
    }
    let mut fast_seen_target = 0u64;
    for v in 1..=nvals {
        // subscribers join at random moments
        if (rng.chance(1, 3) || (calm && v == 1)) && next_sub <= 4 {
            let buf = rng.range(1, 3) as usize;
            let rx = tx.subscribe::<2>(buf);
            let leave = if rng.chance(1, 4) && !calm { rng.range(1, 3) } else { u64::MAX };
            let is_remote = conn.is_some() && rng.chance(1, 2);
            let r = Rng::new(seed * 7 + next_sub);
            if is_remote {
                let c = conn.as_mut().unwrap();
                let (s, rr) = tokio::join!(c.a_tx.send(rx), c.b_rx.recv());
                match (s, rr) {
                    (Ok(()), Ok(Some(rx))) => {
                        tr(json!({"ev": "bc_sub", "sub": next_sub, "fast": false, "remote": true, "after": v - 1, "buf": buf}));
                        handles.push(spawn_d(2, bc_subscriber(rx, next_sub, false, r, leave)));
                    }
                    _ => tr(json!({"ev": "bc_sub_failed", "sub": next_sub})),
                }
            } else {
                tr(json!({"ev": "bc_sub", "sub": next_sub, "fast": false, "remote": false, "after": v - 1, "buf": buf}));
                handles.push(spawn_d(1, bc_subscriber(rx, next_sub, false, r, leave)));
            }
            next_sub += 1;
        }
        // let the fast subscriber drain (it keeps up by definition)
        for _ in 0..400 {
            if calm || trace_count_fast(fast_id) >= fast_seen_target {
                break;
            }
            tokio::task::yield_now().await;
        }
        let n = match tx.send(v as u32) {
            Ok(b) => b.into_sendings().len() as i64,
            Err(_) => -1,
        };
        SENT.store(v, Ordering::SeqCst);
        fast_seen_target = v;
        tr(json!({"ev": "bc_send", "v": v, "n": n}));
        // calm scenarios: bursts (no gap) so that everybody lags
        yields(if calm && rng.chance(2, 3) { 0 } else { rng.below(20) }).await;
        if cut && v == nvals / 2 {
            if let Some(c) = &conn {
                tr(json!({"ev": "fault", "kind": "cut"}));
                c.ab.set(|st| {
                    st.sink_err = true;
                    st.stream_err = true;
                });
                c.ba.set(|st| {
                    st.sink_err = true;
                    st.stream_err = true;
                });
            }
        }
    }
    let mut last = nvals;
    if calm {
        // everybody drains (and learns about its lag), then values arrive with long gaps: nobody can lag now
        yields(400).await;
        tr(json!({"ev": "bc_calm", "from": nvals + 1}));
        for v in nvals + 1..=nvals + rng.range(2, 4) {
            let n = match tx.send(v as u32) {
                Ok(b) => b.into_sendings().len() as i64,
                Err(_) => -1,
            };
            tr(json!({"ev": "bc_send", "v": v, "n": n}));
            last = v;
            yields(150).await;
        }
    }
    tr(json!({"ev": "bc_drop_sender", "last": last}));
    drop(tx);
    if let Some(c) = conn {
        conn_keep = Some(c);
    }
    let left = wait_tasks(&mut handles, &links, 4000).await;
    tr(json!({"ev": "bc_end", "pending": left}));
    for h in handles {
        h.abort();
    }
    if let Some(c) = conn_keep {
        c.pump.abort();
        for h in c.conn {
            h.abort();
        }
    }
    settle().await;
}

/// Number of values the fast subscriber has logged so far (it must keep up with the sender).
fn trace_count_fast(_id: u64) -> u64 {
    FAST_SEEN.load(Ordering::SeqCst)
}
static FAST_SEEN: AtomicU64 = AtomicU64::new(0);

// ------------------------------------------------------------------------------------------------ watch

/// Watched value: the number that matters plus padding, so that forwarding one value takes several round trips
/// (credits, chunks) and later updates arrive while a transmission is in progress.
#[derive(Clone, Debug, serde::Serialize, serde::Deserialize)]
pub struct WVal {
    pub v: u32,
    pub pad: Vec<u8>,
}

async fn watch_observer(mut rx: watch::Receiver<WVal>, id: u64, mut rng: Rng, style: u64) {
    // every observation is logged; the receiver must converge to the last value sent
    match rx.borrow_and_update() {
        Ok(v) => tr(json!({"ev": "w_obs", "rx": id, "v": v.v, "how": "initial"})),
        Err(_) => {
            tr(json!({"ev": "w_err", "rx": id}));
            return;
        }
    }
    loop {
        yields(rng.below(15)).await;
        let res = if style == 0 {
            match rx.changed().await {
                Ok(()) => rx.borrow_and_update().map(|v| v.v).map_err(|_| ()),
                Err(_) => Err(()),
            }
        } else {
            let last = rx.borrow().map(|v| v.v).unwrap_or(0);
            match rx.wait_for(|v| v.v > last).await {
                Ok(v) => Ok(v.v),
                Err(_) => Err(()),
            }
        };
        match res {
            Ok(v) => tr(json!({"ev": "w_obs", "rx": id, "v": v, "how": if style == 0 { "changed" } else { "wait_for" }})),
            Err(()) => {
                // sender gone: the value that can still be read must be the last one sent
                match rx.borrow() {
                    Ok(v) => tr(json!({"ev": "w_final", "rx": id, "v": v.v})),
                    Err(_) => tr(json!({"ev": "w_final_err", "rx": id})),
                }
                return;
            }
        }
    }
}

pub async fn watch_scenario(seed: u64, hops: u64, cut: bool) {
    let mut rng = Rng::new(seed ^ 0x3A7C);
    tr(json!({"ev": "reset", "seed": seed, "wl": "watch", "hops": hops, "cut": cut}));
    install_spawn_policy(seed, 1, 4);
    SENT.store(0, Ordering::SeqCst);
    let pad = *rng.pick(&[0usize, 0, 40, 150, 400]);
    let (tx, rx0) = watch::channel::<WVal, remoc::codec::Default>(WVal { v: 0, pad: vec![0; pad] });
    let mut handles: Vec<tokio::task::JoinHandle<()>> = Vec::new();
    let mut links = Vec::new();
    let mut conns: Vec<RemConn<watch::Receiver<WVal>, ()>> = Vec::new();
    for h in 0..hops {
        let (ca, cb) = (upper_cfg(&mut rng), upper_cfg(&mut rng));
        let c = rem_connect::<watch::Receiver<WVal>, ()>(&ca, &cb, seed * 3 + h, h * 10).await;
        links.extend(c.links());
        conns.push(c);
    }
    let nvals = rng.range(4, 12);
    // the updater runs on its own: values 1..=nvals with short random gaps (often none), and the sender is dropped
    // immediately after the last send.  Receivers are created, cloned and transferred concurrently.
    let mut ru = Rng::new(seed * 29 + 3);
    let cut_links: Vec<Link> = if cut && !conns.is_empty() { conns[0].links() } else { Vec::new() };
    let updater = spawn_d(1, async move {
        yields(ru.below(30)).await;
        for v in 1..=nvals {
            let ok = tx.send(WVal { v: v as u32, pad: vec![v as u8; pad] }).is_ok();
            SENT.store(v, Ordering::SeqCst);
            tr(json!({"ev": "w_send", "v": v, "ok": ok}));
            if v == nvals / 2 && !cut_links.is_empty() {
                tr(json!({"ev": "fault", "kind": "cut"}));
                for l in &cut_links {
                    l.set(|st| {
                        st.sink_err = true;
                        st.stream_err = true;
                    });
                }
            }
            if v < nvals {
                let gap = match ru.below(4) {
                    0 => 0,
                    1 => ru.below(4),
                    _ => ru.below(25),
                };
                yields(gap).await;
            }
        }
        tr(json!({"ev": "w_drop_sender", "last": nvals}));
        drop(tx);
    });
    let mut next_rx = 1u64;
    let pending_local = Some(rx0);
    let nrx = rng.range(2, 4);
    for _ in 0..nrx {
        yields(rng.below(60)).await;
        let rx = pending_local.as_ref().unwrap().clone();
        let depth = if hops > 0 { rng.below(hops + 1) } else { 0 };
        let id = next_rx;
        next_rx += 1;
        tr(json!({"ev": "w_new", "rx": id, "hops": depth, "after": SENT.load(Ordering::SeqCst)}));
        // transfer over `depth` connections (A -> B -> C ...) while the updater keeps going
        let mut cur = Some(rx);
        for c in conns.iter_mut().take(depth as usize) {
            let (s, r) = tokio::join!(c.a_tx.send(cur.take().unwrap()), c.b_rx.recv());
            match (s, r) {
                (Ok(()), Ok(Some(rx))) => cur = Some(rx),
                _ => break,
            }
        }
        let style = rng.below(2);
        match cur {
            Some(cur) => handles.push(spawn_d(depth + 1, watch_observer(cur, id, Rng::new(seed * 11 + id), style))),
            None => tr(json!({"ev": "w_transfer_failed", "rx": id})),
        }
    }
    drop(pending_local);
    handles.push(updater);
    let left = wait_tasks(&mut handles, &links, 4000).await;
    tr(json!({"ev": "w_end", "pending": left}));
    for h in handles {
        h.abort();
    }
    for c in conns {
        c.pump.abort();
        for h in c.conn {
            h.abort();
        }
    }
    settle().await;
}

// ------------------------------------------------------------------------------------------------ concurrent senders
// Two clones of a broadcast sender used from two OS threads at the same time (send has no suspension point, so the
// single-threaded scenarios never overlap two sends).  The value's Clone - which send calls while it fans the value
// out - parks the first sender until the second one has tried to send as well.

static GATE_ENTERED: std::sync::atomic::AtomicBool = std::sync::atomic::AtomicBool::new(false);
static GATE_RELEASE: std::sync::atomic::AtomicBool = std::sync::atomic::AtomicBool::new(false);

#[derive(Debug, serde::Serialize, serde::Deserialize)]
pub struct Gated(pub u32);
impl Clone for Gated {
    fn clone(&self) -> Self {
        if self.0 == 1000 && !GATE_RELEASE.load(Ordering::SeqCst) {
            GATE_ENTERED.store(true, Ordering::SeqCst);
            let t0 = std::time::Instant::now();
            while !GATE_RELEASE.load(Ordering::SeqCst) && t0.elapsed().as_millis() < 300 {
                std::thread::sleep(std::time::Duration::from_micros(200));
            }
        }
        Gated(self.0)
    }
}

pub async fn broadcast_threads(seed: u64) {
    tr(json!({"ev": "reset", "seed": seed, "wl": "bcast_threads", "remote": false, "cut": false, "calm": false}));
    GATE_ENTERED.store(false, Ordering::SeqCst);
    GATE_RELEASE.store(false, Ordering::SeqCst);
    let tx = broadcast::Sender::<Gated>::new();
    let nsubs = 1 + seed % 2;
    let mut rxs = Vec::new();
    for _ in 0..nsubs {
        rxs.push(tx.subscribe::<2>(8));
    }
    let tx2 = tx.clone();
    let a = std::thread::spawn(move || {
        let ok = tx.send(Gated(1000)).is_ok();
        drop(tx);
        ok
    });
    // wait until sender A is inside send (cloning the value for a subscriber)
    let t0 = std::time::Instant::now();
    while !GATE_ENTERED.load(Ordering::SeqCst) && t0.elapsed().as_millis() < 300 {
        std::thread::sleep(std::time::Duration::from_micros(200));
    }
    let b = std::thread::spawn(move || {
        let ok = tx2.send(Gated(2000)).is_ok();
        drop(tx2);
        ok
    });
    // B either completes while A is parked (no mutual exclusion) or blocks behind A; give it a moment, then release A
    let t1 = std::time::Instant::now();
    while !b.is_finished() && t1.elapsed().as_millis() < 40 {
        std::thread::sleep(std::time::Duration::from_micros(200));
    }
    let b_overlapped = b.is_finished();
    GATE_RELEASE.store(true, Ordering::SeqCst);
    let a_ok = a.join().unwrap_or(false);
    let b_ok = b.join().unwrap_or(false);
    tr(json!({"ev": "bt_send", "who": "a", "ok": a_ok}));
    tr(json!({"ev": "bt_send", "who": "b", "ok": b_ok, "overlapped": b_overlapped}));
    for (i, mut rx) in rxs.into_iter().enumerate() {
        let mut got = Vec::new();
        let mut lagged = false;
        loop {
            match patient(rx.recv(), 200, 300).await {
                Some(Ok(v)) => got.push(v.0),
                Some(Err(broadcast::RecvError::Lagged)) => lagged = true,
                _ => break,
            }
        }
        got.sort();
        tr(json!({"ev": "bt_sub", "sub": i + 1, "got": got, "lagged": lagged}));
    }
    tr(json!({"ev": "bt_end"}));
}
