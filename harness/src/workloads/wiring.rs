//! Wiring of channel halves embedded in values (C05): parcels with 0..many halves of every remote channel type at
//! different nesting positions (option, vector, map, boxed nested parcel), optionally padded beyond max_data_size
//! (streamed, i.e. serialized twice), sent over 1..3 connections; every received half is used once and its
//! counterpart, kept at the origin, checks that what arrives carries its own channel id.  With a small port limit
//! halves may fail to connect: both ends must then see an error, never a hang and never another channel.

use super::*;
use remoc::rch::{bin, broadcast, lr, mpsc, oneshot, watch};
use serde::{Deserialize, Serialize};
use std::collections::BTreeMap;

#[derive(Serialize, Deserialize, Debug, Clone)]
pub struct Msg {
    pub cid: u32,
    pub n: u32,
}

#[derive(Serialize, Deserialize)]
pub enum Half {
    MpscTx(u32, mpsc::Sender<Msg>),
    MpscRx(u32, mpsc::Receiver<Msg>),
    OneTx(u32, oneshot::Sender<Msg>),
    OneRx(u32, oneshot::Receiver<Msg>),
    WatchRx(u32, watch::Receiver<Msg>),
    WatchTx(u32, watch::Sender<Msg>),
    BcastRx(u32, broadcast::Receiver<Msg>),
    LrTx(u32, lr::Sender<Msg>),
    LrRx(u32, lr::Receiver<Msg>),
    BinTx(u32, bin::Sender),
    BinRx(u32, bin::Receiver),
    IoTx(u32, remoc::rch::io::Sender),
    IoRx(u32, remoc::rch::io::Receiver),
    /// A channel whose items embed a channel half themselves: the port requests of those items travel through
    /// every endpoint that forwards the outer channel.
    NestTx(u32, mpsc::Sender<Inner>),
    /// A raw (bin) channel used as transport of a typed channel whose items embed halves: when the bin half is
    /// forwarded, the port requests of those items pass through chmux-level forwarding on every hop.
    BinNestTx(u32, bin::Sender),
}

/// Item of a nested channel: carries the channel id and a oneshot sender for the reply.
#[derive(Serialize, Deserialize)]
pub struct Inner {
    pub cid: u32,
    pub reply: oneshot::Sender<Msg>,
}

impl Half {
    fn cid(&self) -> u32 {
        match self {
            Half::MpscTx(c, _) | Half::MpscRx(c, _) | Half::OneTx(c, _) | Half::OneRx(c, _) | Half::WatchRx(c, _) | Half::WatchTx(c, _)
            | Half::BcastRx(c, _) | Half::LrTx(c, _) | Half::LrRx(c, _) | Half::BinTx(c, _) | Half::BinRx(c, _) | Half::IoTx(c, _) | Half::IoRx(c, _) | Half::NestTx(c, _) | Half::BinNestTx(c, _) => *c,
        }
    }
    fn kind(&self) -> &'static str {
        match self {
            Half::MpscTx(..) => "mpsc_tx",
            Half::MpscRx(..) => "mpsc_rx",
            Half::OneTx(..) => "one_tx",
            Half::OneRx(..) => "one_rx",
            Half::WatchRx(..) => "watch_rx",
            Half::WatchTx(..) => "watch_tx",
            Half::BcastRx(..) => "bcast_rx",
            Half::LrTx(..) => "lr_tx",
            Half::LrRx(..) => "lr_rx",
            Half::BinTx(..) => "bin_tx",
            Half::BinRx(..) => "bin_rx",
            Half::IoTx(..) => "io_tx",
            Half::IoRx(..) => "io_rx",
            Half::NestTx(..) => "nest_tx",
            Half::BinNestTx(..) => "binnest_tx",
        }
    }
}

/// What the origin keeps of each channel.
pub enum Keep {
    MpscRx(u32, mpsc::Receiver<Msg>),
    MpscTx(u32, mpsc::Sender<Msg>),
    OneRx(u32, oneshot::Receiver<Msg>),
    OneTx(u32, oneshot::Sender<Msg>),
    WatchTx(u32, watch::Sender<Msg>),
    WatchRx(u32, watch::Receiver<Msg>),
    BcastTx(u32, broadcast::Sender<Msg>),
    LrRx(u32, lr::Receiver<Msg>),
    LrTx(u32, lr::Sender<Msg>),
    BinRx(u32, bin::Receiver),
    BinTx(u32, bin::Sender),
    IoRx(u32, remoc::rch::io::Receiver),
    IoTx(u32, remoc::rch::io::Sender),
    NestRx(u32, mpsc::Receiver<Inner>),
    BinNestRx(u32, bin::Receiver),
}

#[derive(Serialize, Deserialize)]
pub struct Parcel {
    pub id: u32,
    pub first: Option<Half>,
    pub list: Vec<Half>,
    pub nested: (Option<Box<Parcel>>, Vec<u8>),
    pub map: BTreeMap<u8, Half>,
}

impl Parcel {
    fn halves(self, out: &mut Vec<Half>) {
        if let Some(h) = self.first {
            out.push(h);
        }
        out.extend(self.list);
        if let Some(p) = self.nested.0 {
            p.halves(out);
        }
        out.extend(self.map.into_values());
    }
    fn cids(&self, out: &mut Vec<u32>) {
        if let Some(h) = &self.first {
            out.push(h.cid());
        }
        out.extend(self.list.iter().map(|h| h.cid()));
        if let Some(p) = &self.nested.0 {
            p.cids(out);
        }
        out.extend(self.map.values().map(|h| h.cid()));
    }
}

const GOT_ERR: i64 = -1;
const GOT_HANG: i64 = -2;
const WAIT_POLLS: u64 = 0;

/// No private time-out: an end that neither completes nor fails is found by the scenario's quiescence detection
/// (`wait_tasks`, which also grants remoc's helper threads real time) and reported as pending.
async fn wait<F: std::future::Future>(f: F, _bound: u64) -> Option<F::Output> {
    Some(f.await)
}

fn make_half(rng: &mut Rng, cid: u32, allow_lr: bool) -> (Half, Keep) {
    // local/remote (lr) channels cannot be forwarded by design: they only travel over a single connection
    let pick = loop {
        let p = rng.below(17);
        if allow_lr || !(p == 7 || p == 8) {
            break p;
        }
    };
    match pick {
        0 => {
            let (tx, rx) = mpsc::channel(2);
            (Half::MpscTx(cid, tx), Keep::MpscRx(cid, rx))
        }
        1 => {
            let (tx, rx) = mpsc::channel(2);
            (Half::MpscRx(cid, rx), Keep::MpscTx(cid, tx))
        }
        2 => {
            let (tx, rx) = oneshot::channel();
            (Half::OneTx(cid, tx), Keep::OneRx(cid, rx))
        }
        3 => {
            let (tx, rx) = oneshot::channel();
            (Half::OneRx(cid, rx), Keep::OneTx(cid, tx))
        }
        4 => {
            let (tx, rx) = watch::channel(Msg { cid, n: 0 });
            (Half::WatchRx(cid, rx), Keep::WatchTx(cid, tx))
        }
        5 => {
            let (tx, rx) = watch::channel(Msg { cid, n: 0 });
            (Half::WatchTx(cid, tx), Keep::WatchRx(cid, rx))
        }
        6 => {
            let (tx, rx) = broadcast::channel::<Msg, remoc::codec::Default, 2>(4);
            (Half::BcastRx(cid, rx), Keep::BcastTx(cid, tx))
        }
        7 => {
            let (tx, rx) = lr::channel();
            (Half::LrTx(cid, tx), Keep::LrRx(cid, rx))
        }
        8 => {
            let (tx, rx) = lr::channel();
            (Half::LrRx(cid, rx), Keep::LrTx(cid, tx))
        }
        9 => {
            let (tx, rx) = bin::channel();
            (Half::BinTx(cid, tx), Keep::BinRx(cid, rx))
        }
        10 => {
            let (tx, rx) = bin::channel();
            (Half::BinRx(cid, rx), Keep::BinTx(cid, tx))
        }
        11 => {
            let (tx, rx) = if rng.chance(1, 2) { remoc::rch::io::sized(4) } else { remoc::rch::io::channel() };
            (Half::IoTx(cid, tx), Keep::IoRx(cid, rx))
        }
        12 => {
            let (tx, rx) = if rng.chance(1, 2) { remoc::rch::io::sized(4) } else { remoc::rch::io::channel() };
            (Half::IoRx(cid, rx), Keep::IoTx(cid, tx))
        }
        13 | 14 => {
            let (tx, rx) = mpsc::channel(2);
            (Half::NestTx(cid, tx), Keep::NestRx(cid, rx))
        }
        _ => {
            let (tx, rx) = bin::channel();
            (Half::BinNestTx(cid, tx), Keep::BinNestRx(cid, rx))
        }
    }
}

async fn io_send(mut tx: remoc::rch::io::Sender, cid: u32) -> Result<i64, ()> {
    use tokio::io::AsyncWriteExt;
    tx.write_all(&cid.to_le_bytes()).await.map_err(|_| ())?;
    tx.shutdown().await.map_err(|_| ())?;
    Ok(cid as i64)
}
async fn io_recv(mut rx: remoc::rch::io::Receiver) -> Result<i64, ()> {
    use tokio::io::AsyncReadExt;
    let mut v = Vec::new();
    rx.read_to_end(&mut v).await.map_err(|_| ())?;
    if v.len() == 4 { Ok(u32::from_le_bytes([v[0], v[1], v[2], v[3]]) as i64) } else { Err(()) }
}

fn got_of<T, E>(r: Option<Result<T, E>>, f: impl Fn(T) -> i64) -> i64 {
    match r {
        None => GOT_HANG,
        Some(Ok(v)) => f(v),
        Some(Err(_)) => GOT_ERR,
    }
}

async fn bin_send(tx: bin::Sender, cid: u32) -> Result<i64, ()> {
    let mut tx = tx.into_inner().await.map_err(|_| ())?;
    tx.send(Bytes::from(cid.to_le_bytes().to_vec())).await.map_err(|_| ())?;
    Ok(cid as i64)
}
async fn bin_recv(rx: bin::Receiver) -> Result<i64, ()> {
    let mut rx = rx.into_inner().await.map_err(|_| ())?;
    match rx.recv().await.map_err(|_| ())? {
        Some(d) => {
            let v = Vec::<u8>::from(d);
            if v.len() == 4 { Ok(u32::from_le_bytes([v[0], v[1], v[2], v[3]]) as i64) } else { Err(()) }
        }
        None => Err(()),
    }
}

/// The far end uses a received half once.
async fn use_half(h: Half) {
    let (cid, kind) = (h.cid(), h.kind());
    tr(json!({"ev": "h_start", "cid": cid, "end": "use"}));
    let got = match h {
        Half::MpscTx(c, tx) => got_of(wait(async move { tx.send(Msg { cid: c, n: 1 }).await.map(|_| ()) }, WAIT_POLLS).await, |_| c as i64),
        Half::MpscRx(_, mut rx) => got_of(wait(async move { rx.recv().await }, WAIT_POLLS).await, |m| m.map(|m| m.cid as i64).unwrap_or(GOT_ERR)),
        Half::OneTx(c, tx) => match tx.send(Msg { cid: c, n: 1 }) {
            Ok(sending) => got_of(wait(sending, WAIT_POLLS).await, |_| c as i64),
            Err(_) => GOT_ERR,
        },
        Half::OneRx(_, rx) => got_of(wait(rx, WAIT_POLLS).await, |m| m.cid as i64),
        Half::WatchRx(_, mut rx) => got_of(
            wait(
                async move {
                    rx.wait_for(|m| m.n >= 1).await.map(|m| m.cid as i64).map_err(|_| ())
                },
                WAIT_POLLS,
            )
            .await,
            |v| v,
        ),
        Half::WatchTx(c, tx) => {
            let r = tx.send(Msg { cid: c, n: 1 });
            // keep the sender alive until the value had time to travel
            yields(300).await;
            if r.is_ok() { c as i64 } else { GOT_ERR }
        }
        Half::BcastRx(_, mut rx) => got_of(wait(async move { rx.recv().await }, WAIT_POLLS).await, |m| m.cid as i64),
        Half::LrTx(c, mut tx) => got_of(wait(async move { tx.send(Msg { cid: c, n: 1 }).await.map_err(|_| ()) }, WAIT_POLLS).await, |_| c as i64),
        Half::LrRx(_, mut rx) => got_of(wait(async move { rx.recv().await }, WAIT_POLLS).await, |m| m.map(|m| m.cid as i64).unwrap_or(GOT_ERR)),
        Half::BinTx(c, tx) => got_of(wait(bin_send(tx, c), WAIT_POLLS).await, |v| v),
        Half::BinRx(_, rx) => got_of(wait(bin_recv(rx), WAIT_POLLS).await, |v| v),
        Half::IoTx(c, tx) => got_of(wait(io_send(tx, c), WAIT_POLLS).await, |v| v),
        Half::IoRx(_, rx) => got_of(wait(io_recv(rx), WAIT_POLLS).await, |v| v),
        Half::NestTx(c, tx) => {
            // send an item that embeds a oneshot sender through the (possibly forwarded) channel, wait for the reply
            let (rtx, rrx) = oneshot::channel();
            let r = async move {
                tx.send(Inner { cid: c, reply: rtx }).await.map_err(|_| ())?;
                let m = rrx.await.map_err(|_| ())?;
                Ok::<i64, ()>(m.cid as i64)
            };
            got_of(wait(r, WAIT_POLLS).await, |v| v)
        }
        Half::BinNestTx(c, tx) => {
            let (rtx, rrx) = oneshot::channel();
            let r = async move {
                let raw = tx.into_inner().await.map_err(|_| ())?;
                let mut typed = base::Sender::<Inner>::new(raw);
                typed.send(Inner { cid: c, reply: rtx }).await.map_err(|_| ())?;
                let m = rrx.await.map_err(|_| ())?;
                // keep the transport open until the reply is in
                drop(typed);
                Ok::<i64, ()>(m.cid as i64)
            };
            got_of(wait(r, WAIT_POLLS).await, |v| v)
        }
    };
    tr(json!({"ev": "h_use", "cid": cid, "kind": kind, "got": got}));
}

/// The origin serves / checks the counterpart it kept.
async fn serve_keep(k: Keep) {
    let (cid, got) = match k {
        Keep::MpscRx(c, mut rx) => (c, got_of(wait(async move { rx.recv().await }, WAIT_POLLS).await, |m| m.map(|m| m.cid as i64).unwrap_or(GOT_ERR))),
        Keep::MpscTx(c, tx) => (c, got_of(wait(async move { tx.send(Msg { cid: c, n: 1 }).await.map(|_| ()) }, WAIT_POLLS).await, |_| c as i64)),
        Keep::OneRx(c, rx) => (c, got_of(wait(rx, WAIT_POLLS).await, |m| m.cid as i64)),
        Keep::OneTx(c, tx) => (
            c,
            match tx.send(Msg { cid: c, n: 1 }) {
                Ok(sending) => got_of(wait(sending, WAIT_POLLS).await, |_| c as i64),
                Err(_) => GOT_ERR,
            },
        ),
        Keep::WatchTx(c, tx) => {
            yields(40).await;
            let r = tx.send(Msg { cid: c, n: 1 });
            // wait until the receiver is gone (it drops its half after observing the value) or give up
            let closed = wait(tx.closed(), WAIT_POLLS).await;
            (c, if r.is_err() { GOT_ERR } else if closed.is_none() { GOT_HANG } else { c as i64 })
        }
        Keep::WatchRx(c, mut rx) => (
            c,
            got_of(wait(async move { rx.wait_for(|m| m.n >= 1).await.map(|m| m.cid as i64).map_err(|_| ()) }, WAIT_POLLS).await, |v| v),
        ),
        Keep::BcastTx(c, tx) => {
            // the subscriber connects while the parcel travels; give it time, then send
            yields(120).await;
            let r = tx.send(Msg { cid: c, n: 1 });
            yields(600).await;
            (c, if r.is_ok() { c as i64 } else { GOT_ERR })
        }
        Keep::LrRx(c, mut rx) => (c, got_of(wait(async move { rx.recv().await }, WAIT_POLLS).await, |m| m.map(|m| m.cid as i64).unwrap_or(GOT_ERR))),
        Keep::LrTx(c, mut tx) => (c, got_of(wait(async move { tx.send(Msg { cid: c, n: 1 }).await.map_err(|_| ()) }, WAIT_POLLS).await, |_| c as i64)),
        Keep::BinRx(c, rx) => (c, got_of(wait(bin_recv(rx), WAIT_POLLS).await, |v| v)),
        Keep::BinTx(c, tx) => (c, got_of(wait(bin_send(tx, c), WAIT_POLLS).await, |v| v)),
        Keep::IoRx(c, rx) => (c, got_of(wait(io_recv(rx), WAIT_POLLS).await, |v| v)),
        Keep::IoTx(c, tx) => (c, got_of(wait(io_send(tx, c), WAIT_POLLS).await, |v| v)),
        Keep::BinNestRx(c, rx) => {
            let r = async move {
                let raw = rx.into_inner().await.map_err(|_| ())?;
                let mut typed = base::Receiver::<Inner>::new(raw);
                let inner = typed.recv().await.map_err(|_| ())?.ok_or(())?;
                let got = inner.cid;
                inner.reply.send(Msg { cid: got, n: 1 }).map_err(|_| ())?.await.map_err(|_| ())?;
                Ok::<i64, ()>(got as i64)
            };
            (c, got_of(wait(r, WAIT_POLLS).await, |v| v))
        }
        Keep::NestRx(c, mut rx) => {
            let r = async move {
                let inner = rx.recv().await.map_err(|_| ())?.ok_or(())?;
                let got = inner.cid;
                inner.reply.send(Msg { cid: got, n: 1 }).map_err(|_| ())?.await.map_err(|_| ())?;
                Ok::<i64, ()>(got as i64)
            };
            (c, got_of(wait(r, WAIT_POLLS).await, |v| v))
        }
    };
    tr(json!({"ev": "h_peer", "cid": cid, "got": got}));
}

#[allow(clippy::too_many_arguments)]
fn build_parcel(rng: &mut Rng, id: u32, next_cid: &mut u32, keeps: &mut Vec<Keep>, kinds: &mut Vec<(u32, &'static str)>, depth: u32, budget: &mut u64, pad: usize, allow_lr: bool) -> Parcel {
    let mut mk = |rng: &mut Rng, keeps: &mut Vec<Keep>, kinds: &mut Vec<(u32, &'static str)>| {
        let cid = *next_cid;
        *next_cid += 1;
        let (h, k) = make_half(rng, cid, allow_lr);
        kinds.push((cid, h.kind()));
        keeps.push(k);
        h
    };
    let take = |n: u64, budget: &mut u64| {
        let k = n.min(*budget);
        *budget -= k;
        k
    };
    let first = if take(rng.below(2), budget) == 1 { Some(mk(rng, keeps, kinds)) } else { None };
    let nlist = take(rng.below(4), budget);
    let list = (0..nlist).map(|_| mk(rng, keeps, kinds)).collect();
    let nmap = take(rng.below(3), budget);
    let map = (0..nmap).map(|i| (i as u8, mk(rng, keeps, kinds))).collect();
    let nested = if depth < 2 && rng.chance(1, 3) {
        Some(Box::new(build_parcel(rng, id * 10 + 1, next_cid, keeps, kinds, depth + 1, budget, 0, allow_lr)))
    } else {
        None
    };
    Parcel { id, first, list, nested: (nested, vec![0xA5; pad]), map }
}

#[derive(Clone, Debug)]
pub struct WiringOpts {
    pub hops: u64,
    /// 0: generous port limit; otherwise the max_ports of every endpoint
    pub max_ports: u64,
    pub cut: bool,
}

pub async fn scenario(seed: u64, opts: &WiringOpts) {
    let mut rng = Rng::new(seed ^ 0x317E);
    let hops = if opts.hops == 0 { rng.range(1, 3) } else { opts.hops };
    let mut cfgs = Vec::new();
    for _ in 0..hops {
        let (mut ca, mut cb) = (upper_cfg(&mut rng), upper_cfg(&mut rng));
        if opts.max_ports > 0 {
            ca.max_ports = opts.max_ports as u32;
            cb.max_ports = opts.max_ports as u32;
        }
        // bin channels carry raw messages up to the peer's chunk size
        ca.max_data = ca.max_data.max(ca.chunk as usize);
        cb.max_data = cb.max_data.max(cb.chunk as usize);
        cfgs.push((ca, cb));
    }
    tr(json!({"ev": "reset", "seed": seed, "wl": "wiring", "hops": hops, "max_ports": opts.max_ports, "cut": opts.cut,
              "cfg": cfgs.iter().map(|(a, b)| json!([a.json(), b.json()])).collect::<Vec<_>>()}));
    install_spawn_policy(seed, 1, 4);
    let mut conns: Vec<RemConn<Parcel, ()>> = Vec::new();
    let mut links = Vec::new();
    for (h, (ca, cb)) in cfgs.iter().enumerate() {
        let c = rem_connect::<Parcel, ()>(ca, cb, seed * 7 + h as u64, h as u64 * 10).await;
        links.extend(c.links());
        conns.push(c);
    }
    let nparcels = rng.range(1, 3);
    let mut next_cid = 1u32;
    let mut handles: Vec<tokio::task::JoinHandle<()>> = Vec::new();
    let max_data0 = cfgs[0].1.max_data;
    for p in 0..nparcels {
        let mut keeps = Vec::new();
        let mut kinds = Vec::new();
        let mut budget = rng.range(0, 6);
        // a third of the parcels is padded beyond max_data_size: they are streamed, i.e. serialized twice
        let pad = if rng.chance(1, 3) { max_data0 + rng.range(10, 200) as usize } else { rng.below(20) as usize };
        let parcel = build_parcel(&mut rng, p as u32 + 1, &mut next_cid, &mut keeps, &mut kinds, 0, &mut budget, pad, hops == 1);
        let mut cids = Vec::new();
        parcel.cids(&mut cids);
        tr(json!({"ev": "w_item", "id": parcel.id, "cids": cids, "kinds": kinds.iter().map(|(c, k)| json!([c, k])).collect::<Vec<_>>(), "pad": pad}));
        // queued hand-over: mpsc receivers that travel get an item queued before they leave
        for k in keeps.iter() {
            if let Keep::MpscTx(c, tx) = k {
                if rng.chance(1, 2) {
                    let _ = tx.try_send(Msg { cid: *c, n: 0 });
                }
            }
        }
        // the counterparts are served at the origin
        for k in keeps {
            handles.push(spawn_d(1, serve_keep(k)));
        }
        // travel over all hops
        let mut cur = Some(parcel);
        for (h, c) in conns.iter_mut().enumerate() {
            match xfer_why(&mut c.a_tx, &mut c.b_rx, cur.take().unwrap()).await {
                Ok(pc) => cur = Some(pc),
                Err(why) => {
                    tr(json!({"ev": "w_lost", "id": p + 1, "hop": h + 1, "why": why}));
                    break;
                }
            }
        }
        if let Some(pc) = cur {
            let mut got_cids = Vec::new();
            pc.cids(&mut got_cids);
            tr(json!({"ev": "w_recv", "id": pc.id, "cids": got_cids}));
            let mut halves = Vec::new();
            pc.halves(&mut halves);
            for h in halves {
                handles.push(spawn_d(hops + 1, use_half(h)));
            }
        }
        if opts.cut && p == 0 {
            yields(rng.range(5, 100)).await;
            tr(json!({"ev": "fault", "kind": "cut"}));
            for l in links.iter().take(2) {
                l.set(|st| {
                    st.sink_err = true;
                    st.stream_err = true;
                });
            }
        }
    }
    // a real receiver keeps receiving: whatever still arrives on the base channels (e.g. the port requests of a
    // value whose deserialization failed) is processed by further recv calls
    let mut drains = Vec::new();
    let mut rest = Vec::new();
    for c in conns {
        let RemConn { a_tx, a_rx, b_tx, mut b_rx, ab: _, ba: _, conn, pump } = c;
        drains.push(spawn_d(hops + 1, async move {
            loop {
                match b_rx.recv().await {
                    Ok(Some(_)) => {}
                    Ok(None) => break,
                    Err(e) if e.is_final() => break,
                    Err(_) => {}
                }
            }
        }));
        rest.push((a_tx, a_rx, b_tx, conn, pump));
    }
    let left = wait_tasks(&mut handles, &links, 6000).await;
    tr(json!({"ev": "w_end", "pending": left}));
    for h in handles {
        h.abort();
    }
    for d in drains {
        d.abort();
    }
    for (_a_tx, _a_rx, _b_tx, conn, pump) in rest {
        pump.abort();
        for h in conn {
            h.abort();
        }
    }
    settle().await;
}
