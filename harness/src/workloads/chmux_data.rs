//! chmux data-path workload (C01, C02, C03): one port pair, traffic in both directions, all send modes,
//! cancellation at every poll, seeded delivery schedule, small per-endpoint configurations.

use super::*;
use remoc::chmux::{PortReq, Received, Receiver, Sender, TrySendError};
use std::sync::Arc;
use tokio::sync::Mutex as AMutex;

#[derive(Clone, Debug)]
pub struct DataOpts {
    /// Sends per direction.
    pub sends: u64,
    /// Allow dropping send futures after any poll.
    pub cancel: bool,
    /// Allow port-open batches sent over the port.
    pub ports: bool,
    /// H1 deferral probability numerator (denominator 4).
    pub defer: u64,
    /// Only direction A->B carries traffic.
    pub one_way: bool,
    /// Receiver of direction 2 (B->A) never consumes (port blocking scenario uses two ports instead).
    pub max_len_factor: u64,
    /// The harness toggles sink back-pressure (poll_ready pending) on either direction.
    pub backpressure: bool,
}

impl Default for DataOpts {
    fn default() -> Self {
        DataOpts { sends: 6, cancel: true, ports: true, defer: 1, one_way: false, max_len_factor: 3, backpressure: false }
    }
}

enum SendRes {
    Ok,
    Full,
    Err(&'static str),
    /// connect() result: number of Connect handles (kept alive until teardown)
    Connects(Vec<remoc::chmux::Connect>),
}

enum RecvRes {
    Data(Vec<u8>),
    Chunks,
    Requests(usize),
    None,
    Chunk(Vec<u8>),
    End,
    Cancelled,
    Err(&'static str),
}

struct Dir {
    sep: u64,
    rep: u64,
    tx: Arc<AMutex<Sender>>,
    rx: Arc<AMutex<Receiver>>,
    send_op: Option<Op<SendRes>>,
    recv_op: Option<Op<RecvRes>>,
    chunk_mode: bool,
    sends_left: u64,
    finished: bool,
}

fn payload(id: u64, len: usize) -> Vec<u8> {
    (0..len).map(|i| ((id * 37 + i as u64 * 11 + 1) % 251) as u8).collect()
}

pub async fn scenario(seed: u64, opts: &DataOpts) {
    let mut rng = Rng::new(seed);
    let cfg_a = EpCfg::small(&mut rng);
    let cfg_b = EpCfg::small(&mut rng);
    tr(json!({"ev": "reset", "seed": seed, "wl": "data", "cfg": [cfg_a.json(), cfg_b.json()]}));
    install_spawn_policy(seed, opts.defer, 4);

    let mut conn = Conn::establish(&cfg_a, &cfg_b).await;
    // open one port pair with eager delivery
    let (c, s) = {
        let client = conn.client[0].clone().unwrap();
        let mut listener = conn.listener[1].take().unwrap();
        let cfut = Labeled::new(1, async move { client.connect().await });
        let sfut = Labeled::new(2, async move {
            let r = listener.accept().await;
            (r, listener)
        });
        let (pab, pba) = (conn.ab.clone(), conn.ba.clone());
        let pump = tokio::spawn(async move {
            loop {
                pab.deliver();
                pba.deliver();
                tokio::task::yield_now().await;
            }
        });
        let (c, (s, l)) = tokio::join!(cfut, sfut);
        pump.abort();
        conn.listener[1] = Some(l);
        (c.expect("connect"), s.expect("accept").expect("accept some"))
    };
    conn.flush().await;
    let (a_tx, a_rx) = c;
    let (b_tx, b_rx) = s;
    tr(json!({"ev": "open", "ep": 1, "local": p32(a_tx.local_port()), "remote": p32(a_tx.remote_port())}));
    tr(json!({"ev": "open", "ep": 2, "local": p32(b_tx.local_port()), "remote": p32(b_tx.remote_port())}));

    let cfgs = [cfg_a.clone(), cfg_b.clone()];
    let mut dirs = vec![
        Dir {
            sep: 1,
            rep: 2,
            tx: Arc::new(AMutex::new(a_tx)),
            rx: Arc::new(AMutex::new(b_rx)),
            send_op: None,
            recv_op: None,
            chunk_mode: false,
            sends_left: opts.sends,
            finished: false,
        },
        Dir {
            sep: 2,
            rep: 1,
            tx: Arc::new(AMutex::new(b_tx)),
            rx: Arc::new(AMutex::new(a_rx)),
            send_op: None,
            recv_op: None,
            chunk_mode: false,
            sends_left: if opts.one_way { 0 } else { opts.sends },
            finished: false,
        },
    ];
    let mut next_op = 1u64;
    let mut kept_connects: Vec<remoc::chmux::Connect> = Vec::new();

    let mut idle = 0;
    let mut steps = 0u64;
    let mut draining = false;
    loop {
        steps += 1;
        if steps > 20_000 || trace_len() > 4000 {
            tr(json!({"ev": "livelock", "steps": steps}));
            // no graceful teardown: the endpoints are flooding each other
            for h in conn.run.iter_mut().flatten() {
                h.abort();
            }
            return;
        }
        let budget_left = dirs.iter().any(|d| d.sends_left > 0 || d.send_op.is_some());
        if !budget_left && !draining {
            draining = true;
        }
        let mut acted = false;
        let di = rng.below(2) as usize;
        let action = if draining { 3 + rng.below(5) } else { rng.below(if opts.backpressure { 10 } else { 8 }) };
        if draining {
            // healthy transport for the verdicts: no back-pressure any more
            for l in [&conn.ab, &conn.ba] {
                if l.0.lock().unwrap().blocked {
                    l.set(|st| st.blocked = false);
                }
            }
        }
        let d = &mut dirs[di];
        match action {
            // ---- start a send
            0 if d.send_op.is_none() && d.sends_left > 0 => {
                d.sends_left -= 1;
                let peer = &cfgs[(d.rep - 1) as usize];
                let id = next_op;
                next_op += 1;
                let kind = rng.below(if opts.ports { 8 } else { 7 });
                let len = match if opts.max_len_factor == 0 { if rng.chance(1, 6) { 1 } else { 0 } } else { rng.below(5) } {
                    0 => 0,
                    1 => rng.range(1, 3),
                    2 => peer.chunk as u64 + rng.below(3),
                    3 => peer.max_data as u64 - 1 + rng.below(3),
                    _ => rng.range(1, peer.max_data as u64 * opts.max_len_factor),
                } as usize;
                let data = payload(id, len);
                let tx = d.tx.clone();
                let port = { p32(d.tx.try_lock().map(|g| g.local_port()).unwrap_or(0)) };
                match kind {
                    0..=2 => {
                        tr(json!({"ev": "api_start", "op": id, "ep": d.sep, "kind": "send", "port": port, "data": bytes_json(&data)}));
                        let b = Bytes::from(data);
                        d.send_op = Some(Op::new(id, d.sep, async move {
                            let mut g = tx.lock_owned().await;
                            match g.send(b).await {
                                Ok(()) => SendRes::Ok,
                                Err(e) => SendRes::Err(send_err_class(&e)),
                            }
                        }));
                    }
                    3..=4 => {
                        // try_send is synchronous: limited to the receive buffer, make most of them fit
                        let data = if rng.chance(3, 4) { payload(id, len.min(peer.rbuf as usize)) } else { data };
                        tr(json!({"ev": "api_start", "op": id, "ep": d.sep, "kind": "try_send", "port": port, "data": bytes_json(&data)}));
                        let b = Bytes::from(data);
                        let res = with_label(d.sep, || {
                            let mut g = tx.try_lock().expect("sender busy");
                            g.try_send(&b)
                        });
                        match res {
                            Ok(()) => tr(json!({"ev": "api_done", "op": id, "res": "ok"})),
                            Err(TrySendError::Full) => tr(json!({"ev": "api_done", "op": id, "res": "full"})),
                            Err(TrySendError::Send(e)) => {
                                tr(json!({"ev": "api_done", "op": id, "res": "err", "err": send_err_class(&e)}))
                            }
                        }
                    }
                    5..=6 => {
                        // chunk-by-chunk
                        let mut parts: Vec<Vec<u8>> = Vec::new();
                        let mut rest = &data[..];
                        while !rest.is_empty() {
                            let n = (rng.range(0, peer.chunk as u64 + 2) as usize).min(rest.len());
                            parts.push(rest[..n].to_vec());
                            rest = &rest[n..];
                        }
                        let use_final = !parts.is_empty() && rng.chance(1, 2);
                        tr(json!({"ev": "api_start", "op": id, "ep": d.sep, "kind": "send_chunks", "port": port, "data": bytes_json(&data),
                                  "parts": parts.iter().map(|p| p.len()).collect::<Vec<_>>(), "fin": use_final}));
                        d.send_op = Some(Op::new(id, d.sep, async move {
                            let mut g = tx.lock_owned().await;
                            let mut cs = g.send_chunks();
                            let n = parts.len();
                            for (i, p) in parts.into_iter().enumerate() {
                                if use_final && i + 1 == n {
                                    return match cs.send_final(Bytes::from(p)).await {
                                        Ok(()) => SendRes::Ok,
                                        Err(e) => SendRes::Err(send_err_class(&e)),
                                    };
                                }
                                cs = match cs.send(Bytes::from(p)).await {
                                    Ok(cs) => cs,
                                    Err(e) => return SendRes::Err(send_err_class(&e)),
                                };
                            }
                            match cs.finish().await {
                                Ok(()) => SendRes::Ok,
                                Err(e) => SendRes::Err(send_err_class(&e)),
                            }
                        }));
                    }
                    _ => {
                        // port-open batch
                        let n = rng.range(1, 4) as usize;
                        let wait = rng.chance(1, 2);
                        let alloc = d.tx.try_lock().expect("sender busy").port_allocator();
                        let mut reqs = Vec::new();
                        for _ in 0..n {
                            if let Some(p) = alloc.try_allocate() {
                                reqs.push(PortReq::new(p));
                            }
                        }
                        let ports: Vec<_> = reqs.iter().map(|_| 0).collect::<Vec<i32>>();
                        tr(json!({"ev": "api_start", "op": id, "ep": d.sep, "kind": "connect", "port": port, "n": ports.len(), "wait": wait}));
                        d.send_op = Some(Op::new(id, d.sep, async move {
                            let mut g = tx.lock_owned().await;
                            match g.connect(reqs, wait).await {
                                Ok(c) => SendRes::Connects(c),
                                Err(e) => SendRes::Err(send_err_class(&e)),
                            }
                        }));
                    }
                }
                acted = true;
            }
            // ---- poll the send
            1 | 3 if d.send_op.as_ref().is_some_and(|o| o.runnable()) => {
                let op = d.send_op.as_mut().unwrap();
                match op.poll() {
                    Polled::Ready(r) => {
                        match r {
                            SendRes::Ok => tr(json!({"ev": "api_done", "op": op.id, "res": "ok"})),
                            SendRes::Full => tr(json!({"ev": "api_done", "op": op.id, "res": "full"})),
                            SendRes::Err(e) => tr(json!({"ev": "api_done", "op": op.id, "res": "err", "err": e})),
                            SendRes::Connects(c) => {
                                tr(json!({"ev": "api_done", "op": op.id, "res": "ok", "n": c.len()}));
                                kept_connects.extend(c);
                            }
                        }
                        d.send_op = None;
                    }
                    Polled::Pending => {}
                    Polled::Panicked => {
                        tr(json!({"ev": "api_panic", "op": op.id}));
                        d.send_op = None;
                    }
                }
                acted = true;
            }
            // ---- cancel the send
            2 if opts.cancel && d.send_op.as_ref().is_some_and(|o| o.polls > 0) && rng.chance(1, 3) => {
                let op = d.send_op.take().unwrap();
                tr(json!({"ev": "api_cancel", "op": op.id, "polls": op.polls}));
                with_label(op.label, || drop(op));
                acted = true;
            }
            // ---- receive
            4 | 5 if !d.finished => {
                if d.recv_op.is_none() {
                    let id = next_op;
                    next_op += 1;
                    let rx = d.rx.clone();
                    let port = p32(d.rx.try_lock().map(|g| g.local_port()).unwrap_or(0));
                    if d.chunk_mode {
                        tr(json!({"ev": "api_start", "op": id, "ep": d.rep, "kind": "recv_chunk", "port": port}));
                        d.recv_op = Some(Op::new(id, d.rep, async move {
                            let mut g = rx.lock_owned().await;
                            match g.recv_chunk().await {
                                Ok(Some(c)) => RecvRes::Chunk(c.to_vec()),
                                Ok(None) => RecvRes::End,
                                Err(remoc::chmux::RecvChunkError::Cancelled) => RecvRes::Cancelled,
                                Err(remoc::chmux::RecvChunkError::ChMux) => RecvRes::Err("chmux"),
                            }
                        }));
                    } else {
                        tr(json!({"ev": "api_start", "op": id, "ep": d.rep, "kind": "recv_any", "port": port}));
                        d.recv_op = Some(Op::new(id, d.rep, async move {
                            let mut g = rx.lock_owned().await;
                            match g.recv_any().await {
                                Ok(Some(Received::Data(buf))) => RecvRes::Data(Vec::<u8>::from(buf)),
                                Ok(Some(Received::Chunks)) => RecvRes::Chunks,
                                Ok(Some(Received::Requests(r))) => RecvRes::Requests(r.len()),
                                Ok(None) => RecvRes::None,
                                Err(remoc::chmux::RecvError::ChMux) => RecvRes::Err("chmux"),
                                Err(remoc::chmux::RecvError::ExceedsMaxDataSize(_)) => RecvRes::Err("max_data"),
                                Err(remoc::chmux::RecvError::ExceedsMaxPortCount(_)) => RecvRes::Err("max_ports"),
                            }
                        }));
                    }
                    acted = true;
                } else if d.recv_op.as_ref().unwrap().runnable() {
                    let op = d.recv_op.as_mut().unwrap();
                    match op.poll() {
                        Polled::Ready(r) => {
                            let id = op.id;
                            match r {
                                RecvRes::Data(v) => tr(json!({"ev": "api_done", "op": id, "res": "data", "data": bytes_json(&v)})),
                                RecvRes::Chunks => {
                                    d.chunk_mode = true;
                                    tr(json!({"ev": "api_done", "op": id, "res": "chunks"}))
                                }
                                RecvRes::Requests(n) => tr(json!({"ev": "api_done", "op": id, "res": "requests", "n": n})),
                                RecvRes::None => {
                                    d.finished = true;
                                    tr(json!({"ev": "api_done", "op": id, "res": "none"}))
                                }
                                RecvRes::Chunk(v) => tr(json!({"ev": "api_done", "op": id, "res": "chunk", "data": bytes_json(&v)})),
                                RecvRes::End => {
                                    d.chunk_mode = false;
                                    tr(json!({"ev": "api_done", "op": id, "res": "end"}))
                                }
                                RecvRes::Cancelled => {
                                    d.chunk_mode = false;
                                    tr(json!({"ev": "api_done", "op": id, "res": "cancelled"}))
                                }
                                RecvRes::Err(e) => {
                                    d.finished = true;
                                    tr(json!({"ev": "api_done", "op": id, "res": "err", "err": e}))
                                }
                            }
                            d.recv_op = None;
                        }
                        Polled::Pending => {}
                        Polled::Panicked => {
                            tr(json!({"ev": "api_panic", "op": op.id}));
                            d.recv_op = None;
                            d.finished = true;
                        }
                    }
                    acted = true;
                }
            }
            // ---- cancel the receive call (recv_any / recv_chunk are cancel safe)
            2 if opts.cancel && !draining && d.recv_op.as_ref().is_some_and(|o| o.polls > 0) && rng.chance(1, 6) => {
                let op = d.recv_op.take().unwrap();
                tr(json!({"ev": "api_cancel", "op": op.id, "polls": op.polls}));
                with_label(op.label, || drop(op));
                acted = true;
            }
            // ---- transport back-pressure: the sink of one direction stops / resumes accepting frames
            8 | 9 if rng.chance(1, 3) => {
                let l = if action == 8 { &conn.ab } else { &conn.ba };
                let now = l.0.lock().unwrap().blocked;
                l.set(|st| st.blocked = !now);
                tr(json!({"ev": "backpressure", "dir": l.1, "on": !now}));
                acted = true;
            }
            6 if conn.ab.pending() > 0 => {
                conn.ab.deliver();
                acted = true;
            }
            7 if conn.ba.pending() > 0 => {
                conn.ba.deliver();
                acted = true;
            }
            _ => {}
        }
        settle().await;
        if acted {
            idle = 0;
        } else {
            idle += 1;
        }
        if draining && idle >= 60 {
            // make sure nothing is runnable or in flight and both receivers are waiting
            let quiet = conn.ab.pending() == 0
                && conn.ba.pending() == 0
                && dirs.iter().all(|d| {
                    d.send_op.as_ref().is_none_or(|o| !o.runnable())
                        && (d.finished || d.recv_op.as_ref().is_some_and(|o| !o.runnable()))
                });
            if quiet {
                break;
            }
            idle = 0;
        }
    }
    let pending: Vec<u64> = dirs
        .iter()
        .flat_map(|d| d.send_op.iter().map(|o| o.id).chain(d.recv_op.iter().map(|o| o.id)))
        .collect();
    tr(json!({"ev": "quiescent", "pending": pending}));

    // teardown: drop pending operations, then every handle; both dispatchers must end
    for d in dirs.iter_mut() {
        if let Some(op) = d.send_op.take() {
            tr(json!({"ev": "api_cancel", "op": op.id, "polls": op.polls}));
            with_label(op.label, || drop(op));
        }
        if let Some(op) = d.recv_op.take() {
            tr(json!({"ev": "api_cancel", "op": op.id, "polls": op.polls}));
            with_label(op.label, || drop(op));
        }
    }
    drop(kept_connects);
    for d in dirs.drain(..) {
        tr(json!({"ev": "drop", "ep": d.sep, "what": "sender"}));
        drop(d.tx);
        tr(json!({"ev": "drop", "ep": d.rep, "what": "receiver"}));
        drop(d.rx);
    }
    tr(json!({"ev": "all_dropped"}));
    conn.teardown().await;
}
