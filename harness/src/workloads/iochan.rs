//! I/O channels (C18): an `rch::io` channel (sized or unsized) whose reading or writing half is moved to the
//! other endpoint (optionally over two connections); the writer follows a seeded plan of write sizes (around
//! chunk size and receive buffer, including empty writes), flushes, and ends by shutdown, by being dropped, by
//! trying to write more than the fixed size or by shutting down early; the reader reads with seeded buffer
//! sizes until end-of-file or error.  Byte `i` of the stream is `pat(i)`, so every read is checked in place.

use super::*;
use remoc::rch::io as rio;
use tokio::io::{AsyncReadExt, AsyncWriteExt};

fn pat(i: u64) -> u8 {
    ((i * 31 + (i >> 8) * 7 + 11) % 251) as u8
}

fn io_kind(e: &std::io::Error) -> String {
    if std::env::var_os("VERIF_IO_MSG").is_some() {
        return format!("{:?}: {}", e.kind(), e);
    }
    format!("{:?}", e.kind())
}

#[derive(Clone, Debug)]
pub struct IoOpts {
    pub cut: bool,
    /// 0: receiver moved to B; 1: sender moved to B; 2: receiver moved A -> B -> C; 3 random
    pub place: u64,
}

async fn writer(mut tx: rio::Sender, mut rng: Rng, sized: Option<u64>, total_plan: u64, chunk: u64, rbuf: u64, ending: u64) {
    let mut off = 0u64;
    loop {
        let left = total_plan - off;
        if left == 0 {
            break;
        }
        let want = match rng.below(8) {
            0 => 0,
            1 => 1,
            2 => chunk.saturating_sub(1),
            3 => chunk,
            4 => chunk + 1,
            5 => rbuf,
            6 => rbuf + rng.range(1, 40),
            _ => rng.range(1, 3 * chunk),
        }
        .min(left);
        let buf: Vec<u8> = (off..off + want).map(pat).collect();
        match tx.write(&buf).await {
            Ok(n) => {
                tr(json!({"ev": "io_write", "req": want, "n": n, "off": off}));
                off += n as u64;
                if n == 0 && want > 0 {
                    break;
                }
            }
            Err(e) => {
                tr(json!({"ev": "io_write_err", "req": want, "kind": io_kind(&e), "off": off}));
                tr(json!({"ev": "io_drop_tx", "written": off, "shutdown": false}));
                return;
            }
        }
        if rng.chance(1, 5) {
            let r = tx.flush().await;
            tr(json!({"ev": "io_flush", "ok": r.is_ok()}));
            if r.is_err() {
                tr(json!({"ev": "io_drop_tx", "written": off, "shutdown": false}));
                return;
            }
        }
        yields(rng.below(6)).await;
    }
    // ending: 0 shutdown, 1 drop after flush, 2 drop without flush, 3 try to write past the fixed size, then shutdown
    if ending == 3 {
        if let Some(sz) = sized {
            if off == sz {
                let extra = vec![0xEEu8; rng.range(1, 9) as usize];
                match tx.write(&extra).await {
                    Ok(n) => tr(json!({"ev": "io_write", "req": extra.len(), "n": n, "off": off, "over": true})),
                    Err(e) => tr(json!({"ev": "io_write_err", "req": extra.len(), "kind": io_kind(&e), "off": off, "over": true})),
                }
            }
        }
    }
    match ending {
        0 | 3 => {
            let r = tx.shutdown().await;
            match &r {
                Ok(()) => tr(json!({"ev": "io_shutdown", "ok": true, "written": off})),
                Err(e) => tr(json!({"ev": "io_shutdown", "ok": false, "kind": io_kind(e), "written": off})),
            }
            tr(json!({"ev": "io_drop_tx", "written": off, "shutdown": true}));
        }
        1 => {
            let r = tx.flush().await;
            tr(json!({"ev": "io_flush", "ok": r.is_ok()}));
            tr(json!({"ev": "io_drop_tx", "written": off, "shutdown": false, "flushed": r.is_ok()}));
        }
        _ => {
            tr(json!({"ev": "io_drop_tx", "written": off, "shutdown": false, "flushed": false}));
        }
    }
    drop(tx);
}

async fn reader(mut rx: rio::Receiver, mut rng: Rng, chunk: u64) {
    let mut off = 0u64;
    loop {
        let cap = match rng.below(6) {
            0 => 1,
            1 => chunk.saturating_sub(1).max(1),
            2 => chunk,
            3 => chunk + 1,
            4 => rng.range(1, 4 * chunk),
            _ => 4096,
        } as usize;
        let mut buf = vec![0u8; cap];
        match rx.read(&mut buf).await {
            Ok(0) => {
                tr(json!({"ev": "io_eof", "total": off, "size": rx.size().map(|s| s as i64).unwrap_or(-1)}));
                // end-of-file is sticky
                let again = rx.read(&mut buf).await;
                tr(json!({"ev": "io_eof_again", "ok": matches!(again, Ok(0))}));
                return;
            }
            Ok(n) => {
                let good = buf[..n].iter().enumerate().all(|(i, b)| *b == pat(off + i as u64));
                tr(json!({"ev": "io_read", "n": n, "cap": cap, "off": off, "match": good}));
                off += n as u64;
            }
            Err(e) => {
                tr(json!({"ev": "io_read_err", "kind": io_kind(&e), "total": off}));
                return;
            }
        }
        yields(rng.below(6)).await;
    }
}

pub async fn scenario(seed: u64, opts: &IoOpts) {
    let mut rng = Rng::new(seed ^ 0x10C4);
    let (mut ca, mut cb) = (upper_cfg(&mut rng), upper_cfg(&mut rng));
    if let Some(v) = std::env::var("VERIF_IO_MAXDATA").ok().and_then(|v| v.parse::<usize>().ok()) {
        ca.max_data = v;
        cb.max_data = v;
    }
    // a data message of an I/O channel is as long as the receiving endpoint's chunk size allows; configurations whose
    // max_data_size is below their own chunk size reject such messages (loudly) and are not part of this workload
    ca.max_data = ca.max_data.max(ca.chunk as usize);
    cb.max_data = cb.max_data.max(cb.chunk as usize);
    let place = if opts.place >= 3 { rng.below(3) } else { opts.place };
    let is_sized = rng.chance(1, 2);
    // data flows towards the endpoint holding the receiver: its configuration decides chunk size and buffer
    let (chunk, rbuf) = match place {
        1 => (ca.chunk as u64, ca.rbuf as u64),
        _ => (cb.chunk as u64, cb.rbuf as u64),
    };
    let size = match rng.below(6) {
        0 => 0,
        1 => rng.range(1, chunk),
        2 => chunk,
        3 => rbuf + rng.below(3),
        _ => rng.range(1, 4 * rbuf.min(600)),
    };
    // ending: 0 shutdown, 1 drop after flush, 2 drop without flush, 3 over-long write attempt then shutdown
    let ending = match rng.below(8) {
        0 | 1 | 2 | 3 => 0,
        4 => 1,
        5 => 2,
        _ => 3,
    };
    // how much the writer plans to write: everything, or less than the fixed size (short stream)
    let short = is_sized && size > 0 && rng.chance(1, 5);
    let plan = if short { rng.below(size) } else { size };
    tr(json!({"ev": "reset", "seed": seed, "wl": "io", "sized": is_sized, "size": size, "plan": plan, "place": place, "ending": ending,
              "cut": opts.cut, "chunk": chunk, "rbuf": rbuf, "cfg": [ca.json(), cb.json()]}));
    install_spawn_policy(seed, 1, 4);
    let (tx, rx) = if is_sized { rio::sized::<remoc::codec::Default>(size) } else { rio::channel::<remoc::codec::Default>() };
    let mut links = Vec::new();
    let mut keep_rx_conns = Vec::new();
    let mut keep_tx_conn = None;
    // move one half to the other endpoint; a failure to do so on a healthy connection is itself a finding
    let moved: Option<(rio::Sender, rio::Receiver, u64, u64)> = match place {
        1 => {
            let mut conn = rem_connect::<rio::Sender, ()>(&ca, &cb, seed, 0).await;
            let r = xfer(&mut conn.a_tx, &mut conn.b_rx, tx).await;
            links.extend(conn.links());
            let res = match r {
                Some(tx) => Some((tx, rx, 2u64, 1u64)),
                None => {
                    tr(json!({"ev": "io_transfer_failed", "half": "sender"}));
                    None
                }
            };
            keep_tx_conn = Some(conn);
            res
        }
        p => {
            let mut conn = rem_connect::<rio::Receiver, ()>(&ca, &cb, seed, 0).await;
            let first = xfer(&mut conn.a_tx, &mut conn.b_rx, rx).await;
            links.extend(conn.links());
            if first.is_none() {
                tr(json!({"ev": "io_transfer_failed", "half": "receiver"}));
            }
            keep_rx_conns.push(conn);
            let mut rep = 2u64;
            let mut cur = first;
            if p == 2 && cur.is_some() {
                let (mut cc, mut cd) = (upper_cfg(&mut rng), upper_cfg(&mut rng));
                cc.max_data = cc.max_data.max(cc.chunk as usize).max(ca.chunk as usize).max(cb.chunk as usize);
                cd.max_data = cd.max_data.max(cd.chunk as usize).max(ca.chunk as usize).max(cb.chunk as usize);
                let mut conn2 = rem_connect::<rio::Receiver, ()>(&cc, &cd, seed + 5, 10).await;
                cur = xfer(&mut conn2.a_tx, &mut conn2.b_rx, cur.take().unwrap()).await;
                links.extend(conn2.links());
                if cur.is_none() {
                    tr(json!({"ev": "io_transfer_failed", "half": "receiver", "hop": 2}));
                }
                keep_rx_conns.push(conn2);
                rep = 3;
            }
            cur.map(|rx| (tx, rx, 1u64, rep))
        }
    };
    let Some((tx, rx, wep, rep)) = moved else {
        tr(json!({"ev": "io_end", "pending": 0, "moved": false}));
        for conn in keep_rx_conns.into_iter() {
            conn.pump.abort();
            for c in conn.conn {
                c.abort();
            }
        }
        if let Some(conn) = keep_tx_conn {
            conn.pump.abort();
            for c in conn.conn {
                c.abort();
            }
        }
        settle().await;
        return;
    };
    tr(json!({"ev": "io_new", "sized": is_sized, "size": size, "wep": wep, "rep": rep}));
    let mut handles = vec![
        spawn_d(wep, writer(tx, Rng::new(seed * 19 + 1), if is_sized { Some(size) } else { None }, plan, chunk, rbuf, ending)),
        spawn_d(rep, reader(rx, Rng::new(seed * 19 + 2), chunk)),
    ];
    if opts.cut {
        yields(rng.range(5, 150)).await;
        tr(json!({"ev": "fault", "kind": "cut"}));
        let ls: Vec<Link> = links.iter().take(2).cloned().collect();
        for l in ls {
            l.set(|st| {
                st.sink_err = true;
                st.stream_err = true;
            });
        }
    }
    let left = wait_tasks(&mut handles, &links, 4000).await;
    tr(json!({"ev": "io_end", "pending": left}));
    for h in handles {
        h.abort();
    }
    for conn in keep_rx_conns.into_iter() {
        conn.pump.abort();
        for c in conn.conn {
            c.abort();
        }
    }
    if let Some(conn) = keep_tx_conn {
        conn.pump.abort();
        for c in conn.conn {
            c.abort();
        }
    }
    settle().await;
}
