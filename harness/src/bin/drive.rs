//! `drive <workload> --seed S --n N --out FILE [k=v ...]`: runs N seeded scenarios and writes one ndjson trace.

use harness::{workloads::*, *};
use std::{collections::HashMap, io::Write};

fn main() {
    let args: Vec<String> = std::env::args().skip(1).collect();
    if args.is_empty() {
        eprintln!("usage: drive <workload> --seed S --n N --out FILE [k=v ...]");
        std::process::exit(2);
    }
    let wl = args[0].clone();
    let mut seed = 1u64;
    let mut n = 1u64;
    let mut out: Option<String> = None;
    let mut kv: HashMap<String, String> = HashMap::new();
    let mut i = 1;
    while i < args.len() {
        match args[i].as_str() {
            "--seed" => {
                seed = args[i + 1].parse().expect("seed");
                i += 2;
            }
            "--n" => {
                n = args[i + 1].parse().expect("n");
                i += 2;
            }
            "--out" => {
                out = Some(args[i + 1].clone());
                i += 2;
            }
            s => {
                if let Some((k, v)) = s.split_once('=') {
                    kv.insert(k.to_string(), v.to_string());
                } else {
                    eprintln!("bad argument {s}");
                    std::process::exit(2);
                }
                i += 1;
            }
        }
    }
    let get = |k: &str, d: u64| kv.get(k).map(|v| v.parse::<u64>().unwrap_or(d)).unwrap_or(d);

    // stream=0|1 forces the transport of typed connections (frames handed over vs. length-prefixed byte stream)
    if let Some(v) = kv.get("stream") {
        // SAFETY: single-threaded at this point
        unsafe { std::env::set_var("VERIF_STREAM", v) };
    }
    install_panic_hook();
    prewarm();
    let mut w: Box<dyn Write> = match &out {
        Some(p) => Box::new(std::io::BufWriter::new(std::fs::File::create(p).expect("create out"))),
        None => Box::new(std::io::BufWriter::new(std::io::stdout())),
    };
    let mut events = 0u64;
    let mut scen_extra = 0u64;
    for s in seed..seed + n {
        let rt = runtime();
        trace_begin();
        match wl.as_str() {
            // upper-layer workloads observe the API; chmux hook events would only bloat their traces
            "rwlock" => install_hook_sink_for(&["rw_"]),
            "robs_script" | "bcast" | "watch" | "typed_base" | "typed_mpsc" | "rtc" | "rtc_once" | "rfn" | "robs_chain" | "robs_err" | "robs_list" | "io" | "wiring" | "handle" | "lazy" | "stream_hostile" | "bcast_threads" | "wake" => {}
            _ => install_hook_sink(),
        }
        match wl.as_str() {
            "data" => {
                let opts = chmux_data::DataOpts {
                    sends: get("sends", 6),
                    cancel: get("cancel", 1) != 0,
                    ports: get("ports", 1) != 0,
                    defer: get("defer", 1),
                    one_way: get("one_way", 0) != 0,
                    max_len_factor: get("len_factor", 3),
                    backpressure: get("bp", 0) != 0,
                };
                rt.block_on(chmux_data::scenario(s, &opts));
            }
            "life" => {
                let opts = chmux_life::LifeOpts {
                    connects: get("connects", 5),
                    cancel: get("cancel", 1) != 0,
                    defer: get("defer", 1),
                    data: get("data", 1) != 0,
                    max_ports: get("max_ports", 4),
                    calm: get("calm", 0) != 0,
                    ldrop: get("ldrop", 0) != 0,
                    bp: get("bp", 0) != 0,
                    fault_kind: match get("fault_kind", 0) { 1 => "sink_err", 2 => "stream_err", 3 => "stream_end", 4 => "stall", 5 => "stall_both", _ => "" },
                    fault_dir: get("fault_dir", 1),
                    fault_at: get("fault_at", 0),
                    timeout_ms: get("timeout_ms", 0),
                    ..Default::default()
                };
                rt.block_on(chmux_life::scenario(s, &opts));
            }
            "fault" => {
                // fault enumeration: one fault-free run to learn the frame counts, then one run per
                // (kind, direction, frame number) with stride
                let base = chmux_life::LifeOpts {
                    connects: get("connects", 3),
                    cancel: false,
                    defer: get("defer", 1),
                    data: true,
                    max_ports: 4,
                    calm: true,
                    timeout_ms: get("timeout_ms", 2000),
                    bp: get("bp", 0) != 0,
                    ..Default::default()
                };
                let (fa, fb) = rt.block_on(chmux_life::scenario(s, &base));
                let stride = get("stride", 7).max(1);
                let kinds: [&'static str; 5] = ["sink_err", "stream_err", "stream_end", "stall", "stall_both"];
                let mut k = (s % stride) + 1;
                for dir in 1..=2u64 {
                    let total = if dir == 1 { fa } else { fb };
                    while k <= total {
                        for kind in kinds {
                            uninstall_hooks();
                            let lines = trace_end();
                            events += lines.len() as u64;
                            for l in lines {
                                writeln!(w, "{l}").unwrap();
                            }
                            let rt2 = runtime();
                            trace_begin();
                            install_hook_sink();
                            let o = chmux_life::LifeOpts { fault_kind: kind, fault_dir: dir, fault_at: k, ..base.clone() };
                            rt2.block_on(chmux_life::scenario(s, &o));
                            scen_extra += 1;
                        }
                        k += stride;
                    }
                    k = (s % stride) + 1;
                }
            }
            "block" => {
                rt.block_on(chmux_block::scenario(s));
            }
            "rtc" => {
                let o = rtc::RtcOpts { remote: get("remote", 1) != 0, cut: get("cut", 0) != 0, oversize: get("oversize", 0) != 0,
                                       undecodable: get("undecodable", 0) != 0, flavour: get("flavour", 4), conns: get("conns", 1) };
                rt.block_on(rtc::scenario(s, &o));
            }
            "robs_err" => {
                rt.block_on(robs::err_scenario(s, get("coll", 4), get("case", 6)));
            }
            "robs_list" => {
                rt.block_on(robs::list_scenario(s));
            }
            "robs_chain" => {
                rt.block_on(robs::chain_scenario(s, get("coll", 4)));
            }
            "wake" => {
                rt.block_on(chmux_misc::wake_scenario(s));
            }
            "bcast_threads" => {
                rt.block_on(bcast_watch::broadcast_threads(s));
            }
            "stream_hostile" => {
                rt.block_on(chmux_misc::stream_hostile(s));
            }
            "handle" => {
                rt.block_on(handles::handle_scenario(s, get("cut", 0) != 0));
            }
            "lazy" => {
                rt.block_on(handles::lazy_scenario(s, get("cut", 0) != 0));
            }
            "wiring" => {
                let o = wiring::WiringOpts { hops: get("hops", 0), max_ports: get("max_ports", 0), cut: get("cut", 0) != 0 };
                rt.block_on(wiring::scenario(s, &o));
            }
            "io" => {
                let o = iochan::IoOpts { cut: get("cut", 0) != 0, place: get("place", 3) };
                rt.block_on(iochan::scenario(s, &o));
            }
            "rfn" => {
                rt.block_on(rtc::rfn_scenario(s, get("remote", 1) != 0, get("kind", 3)));
            }
            "rtc_once" => {
                rt.block_on(rtc::once_scenario(s, get("remote", 1) != 0));
            }
            "typed_base" => {
                rt.block_on(typed::base_scenario(s, get("cut", 0) != 0, get("variant", 0)));
            }
            "typed_mpsc" => {
                rt.block_on(typed::mpsc_scenario(s, get("cut", 0) != 0, get("flood", 0) != 0));
            }
            "bcast" => {
                rt.block_on(bcast_watch::broadcast_scenario(s, get("remote", 1) != 0, get("cut", 0) != 0, get("calm", 0) != 0));
            }
            "watch" => {
                rt.block_on(bcast_watch::watch_scenario(s, get("hops", 1), get("cut", 0) != 0));
            }
            "rwlock" => {
                let o = rwlock::RwOpts { remote: get("remote", 1) != 0, cancel: get("cancel", 1) != 0, cut: get("cut", 0) != 0, defer: get("defer", 1), cut_commit: get("cut_commit", 0) != 0 };
                rt.block_on(rwlock::scenario(s, &o));
            }
            "robs_script" => {
                let path = kv.get("script").expect("script=<file>").clone();
                let text = std::fs::read_to_string(&path).expect("read script");
                let mut first = true;
                for (i, line) in text.lines().enumerate() {
                    let v: serde_json::Value = match serde_json::from_str(line) {
                        Ok(v) => v,
                        Err(_) => continue,
                    };
                    if !first {
                        uninstall_hooks();
                        let lines = trace_end();
                        events += lines.len() as u64;
                        for l in lines {
                            writeln!(w, "{l}").unwrap();
                        }
                        trace_begin();
                        scen_extra += 1;
                    }
                    first = false;
                    let rt2 = runtime();
                    rt2.block_on(robs::script_scenario(i as u64 + 1, &v));
                }
            }
            "peer_script" => {
                // one scenario per line of the script file (TLC-generated behaviours)
                let path = kv.get("script").expect("script=<file>").clone();
                let text = std::fs::read_to_string(&path).expect("read script");
                let mut first = true;
                for (i, line) in text.lines().enumerate() {
                    let v: serde_json::Value = match serde_json::from_str(line) {
                        Ok(v) => v,
                        Err(_) => continue,
                    };
                    if !first {
                        uninstall_hooks();
                        let lines = trace_end();
                        events += lines.len() as u64;
                        for l in lines {
                            writeln!(w, "{l}").unwrap();
                        }
                        trace_begin();
                        install_hook_sink();
                        scen_extra += 1;
                    }
                    first = false;
                    let rt2 = runtime();
                    rt2.block_on(chmux_peer::script_scenario(i as u64 + 1, &v));
                }
            }
            "peer" => {
                rt.block_on(chmux_peer::scenario(s, get("hostile", 1) != 0));
            }
            "ret_cancel" => {
                rt.block_on(chmux_misc::ret_cancel(s, get("die", 0) != 0));
            }
            "acc_cancel" => {
                rt.block_on(chmux_misc::acc_cancel(s));
            }
            "idle" => {
                rt.block_on(chmux_misc::idle(s, get("periods", 1000)));
            }
            "hs_fault" => {
                let kinds: [&'static str; 5] = ["sink_err", "stream_err", "stream_end", "stall", "stall_both"];
                let mut first = true;
                for kind in kinds {
                    for dir in 1..=2u64 {
                        for at in 1..=2u64 {
                            if !first {
                                uninstall_hooks();
                                let lines = trace_end();
                                events += lines.len() as u64;
                                for l in lines {
                                    writeln!(w, "{l}").unwrap();
                                }
                                trace_begin();
                                install_hook_sink();
                                scen_extra += 1;
                            }
                            first = false;
                            let rt2 = runtime();
                            rt2.block_on(chmux_misc::hs_fault(s, kind, dir, at));
                        }
                    }
                }
            }
            other => {
                eprintln!("unknown workload {other}");
                std::process::exit(2);
            }
        }
        uninstall_hooks();
        drop(rt);
        let lines = trace_end();
        events += lines.len() as u64;
        for l in lines {
            writeln!(w, "{l}").unwrap();
        }
    }
    w.flush().unwrap();
    eprintln!("drive {wl}: scenarios={} events={events} panics={}", n + scen_extra, panic_count());
}
