//! Deterministic conformance harness for remoc (see /verif/DESIGN.md section 4).
//!
//! Everything runs on one thread on a paused `current_thread` Tokio runtime.  The harness owns the
//! transport between the two endpoints, owns every API call as a future that it polls explicitly, and
//! records one ndjson event per observable step with a global order (the order of the lines).

use bytes::Bytes;
use futures::{Sink, Stream};
use serde_json::{Value, json};
use std::{
    collections::{HashMap, VecDeque},
    future::Future,
    io,
    panic::AssertUnwindSafe,
    pin::Pin,
    sync::{
        Arc, Mutex,
        atomic::{AtomicBool, AtomicU64, Ordering},
    },
    task::{Context, Poll, Wake, Waker},
};

pub mod workloads;

// ------------------------------------------------------------------------------------------------ rng

/// splitmix64; every random choice of a scenario derives from its seed.
#[derive(Clone)]
pub struct Rng(pub u64);

impl Rng {
    pub fn new(seed: u64) -> Self {
        Rng(seed.wrapping_mul(0x9E3779B97F4A7C15) ^ 0xD1B54A32D192ED03)
    }
    pub fn next(&mut self) -> u64 {
        self.0 = self.0.wrapping_add(0x9E3779B97F4A7C15);
        let mut z = self.0;
        z = (z ^ (z >> 30)).wrapping_mul(0xBF58476D1CE4E5B9);
        z = (z ^ (z >> 27)).wrapping_mul(0x94D049BB133111EB);
        z ^ (z >> 31)
    }
    pub fn below(&mut self, n: u64) -> u64 {
        if n == 0 { 0 } else { self.next() % n }
    }
    pub fn range(&mut self, lo: u64, hi: u64) -> u64 {
        lo + self.below(hi - lo + 1)
    }
    pub fn chance(&mut self, num: u64, den: u64) -> bool {
        self.below(den) < num
    }
    pub fn pick<'a, T>(&mut self, v: &'a [T]) -> &'a T {
        &v[self.below(v.len() as u64) as usize]
    }
}

// ------------------------------------------------------------------------------------------------ tracer

#[derive(Default)]
struct Tracer {
    lines: Vec<String>,
    keys: HashMap<u64, u64>,
}

static TRACER: Mutex<Option<Tracer>> = Mutex::new(None);
/// Label of the harness-owned future being polled right now (0 = none / a task spawned by remoc).
static CUR: AtomicU64 = AtomicU64::new(0);
static PANICS: AtomicU64 = AtomicU64::new(0);

/// Little-endian byte array of a u32 (port numbers exceed TLC's 32-bit integers).
pub fn p32(n: u32) -> Value {
    json!(n.to_le_bytes())
}

/// Byte string as a JSON array.
pub fn bytes_json(b: &[u8]) -> Value {
    Value::Array(b.iter().map(|x| json!(*x)).collect())
}

/// Records one event.
pub fn tr(v: Value) {
    if std::env::var_os("VERIF_ECHO").is_some() {
        eprintln!("{v}");
    }
    if let Some(t) = TRACER.lock().unwrap().as_mut() {
        t.lines.push(v.to_string());
    }
}

/// Number of events recorded so far in this scenario.
pub fn trace_len() -> usize {
    TRACER.lock().unwrap().as_ref().map(|t| t.lines.len()).unwrap_or(0)
}

/// Starts recording a new scenario.
pub fn trace_begin() {
    *TRACER.lock().unwrap() = Some(Tracer::default());
}

/// Ends recording and returns the lines.
pub fn trace_end() -> Vec<String> {
    TRACER.lock().unwrap().take().map(|t| t.lines).unwrap_or_default()
}

const RENAME: &[&str] = &["key", "pool_key", "mon_key", "akey"];
const PORTS: &[&str] = &["local", "remote"];

/// Installs the H0 event sink: hook events become trace lines `{"ev":"h_<name>", ...}`.
pub fn install_hook_sink() {
    install_hook_sink_for(&[""])
}

/// Records only hook events whose name starts with one of the prefixes (none = no hook events).
pub fn install_hook_sink_for(prefixes: &'static [&'static str]) {
    remoc::verif::set_sink(Some(Box::new(move |name, fields| {
        if !prefixes.iter().any(|p| name.starts_with(p)) {
            return;
        }
        let mut g = TRACER.lock().unwrap();
        let Some(t) = g.as_mut() else { return };
        let mut m = serde_json::Map::new();
        m.insert("ev".into(), json!(format!("h_{name}")));
        m.insert("who".into(), json!(CUR.load(Ordering::SeqCst)));
        for (k, v) in fields {
            let v = if RENAME.contains(k) {
                let n = t.keys.len() as u64 + 1;
                json!(*t.keys.entry(*v).or_insert(n))
            } else if PORTS.contains(k) {
                p32(*v as u32)
            } else {
                json!(*v)
            };
            m.insert((*k).into(), v);
        }
        t.lines.push(Value::Object(m).to_string());
    })));
}

/// Installs the H1 spawn policy: defer a poll of an internal task with probability num/den.
pub fn install_spawn_policy(seed: u64, num: u64, den: u64) {
    if num == 0 {
        remoc::verif::set_spawn_policy(None);
        return;
    }
    let rng = Mutex::new(Rng::new(seed ^ 0xABCD_EF01));
    remoc::verif::set_spawn_policy(Some(Box::new(move || rng.lock().unwrap().below(den) < num)));
}

pub fn uninstall_hooks() {
    remoc::verif::set_sink(None);
    remoc::verif::set_spawn_policy(None);
}

/// Silences the default panic output; panics of the code under test are data.
pub fn install_panic_hook() {
    std::panic::set_hook(Box::new(|info| {
        PANICS.fetch_add(1, Ordering::SeqCst);
        if std::env::var("VERIF_SHOW_PANICS").is_ok() {
            eprintln!("panic: {info}");
        }
    }));
}

pub fn panic_count() -> u64 {
    PANICS.load(Ordering::SeqCst)
}

// ------------------------------------------------------------------------------------------------ labelled futures

/// Sets the current label while the inner future is polled (attributes hook events to an endpoint).
pub struct Labeled<F> {
    label: u64,
    inner: Pin<Box<F>>,
}

impl<F> Labeled<F> {
    pub fn new(label: u64, inner: F) -> Self {
        Labeled { label, inner: Box::pin(inner) }
    }
}

impl<F: Future> Future for Labeled<F> {
    type Output = F::Output;
    fn poll(mut self: Pin<&mut Self>, cx: &mut Context<'_>) -> Poll<F::Output> {
        let prev = CUR.swap(self.label, Ordering::SeqCst);
        let r = self.inner.as_mut().poll(cx);
        CUR.store(prev, Ordering::SeqCst);
        r
    }
}

// ------------------------------------------------------------------------------------------------ transport

/// What the harness does to one direction of the transport.
#[derive(Default)]
pub struct LinkState {
    /// Frames emitted by the sending endpoint, not yet handed to the receiving endpoint.
    pub out: VecDeque<Bytes>,
    /// Frames handed over, not yet read by the receiving endpoint.
    inbox: VecDeque<Bytes>,
    rx_waker: Option<Waker>,
    tx_waker: Option<Waker>,
    /// Number of frames emitted so far.
    pub emitted: u64,
    /// Number of frames delivered so far.
    pub delivered: u64,
    /// Sink reports an error from now on.
    pub sink_err: bool,
    /// Stream yields an error once the inbox is empty.
    pub stream_err: bool,
    /// Stream ends once the inbox is empty.
    pub stream_end: bool,
    /// Frames are accepted by the sink but never delivered.
    pub stalled: bool,
    /// Sink applies back-pressure (poll_ready pending).
    pub blocked: bool,
    /// Log frame bytes (up to this many bytes verbatim).
    pub verbatim: usize,
    /// Fault to inject when the given frame number is about to be emitted: (frame number, kind).
    /// Kinds: "sink_err", "stream_err", "stream_end", "stall".
    pub fault_at: Option<(u64, &'static str)>,
    /// A fault has been injected on this direction.
    pub faulted: bool,
    /// The sending endpoint dropped its sink half.
    pub sender_gone: bool,
    /// The receiving endpoint dropped its stream half.
    pub receiver_gone: bool,
    /// Opposite direction (for faults that affect both directions).
    pub other: Option<std::sync::Weak<Mutex<LinkState>>>,
    /// Do not record wire events (upper-layer workloads observe the API only).
    pub quiet: bool,
}

impl LinkState {
    fn clear_in_flight(&mut self, dir: u64) {
        if !self.out.is_empty() {
            self.out.clear();
            tr(json!({"ev": "wire_drop", "dir": dir}));
        }
    }
}

/// One direction of the harness-owned transport. `dir`: 1 = A->B, 2 = B->A.
#[derive(Clone)]
pub struct Link(pub Arc<Mutex<LinkState>>, pub u64);

pub struct SinkHalf(pub Link);
pub struct StreamHalf(pub Link);

/// Frame bytes, truncated to `verbatim` bytes (the full length is logged separately).
fn frame_json(f: &Bytes, verbatim: usize) -> Value {
    bytes_json(&f[..f.len().min(verbatim)])
}

impl Sink<Bytes> for SinkHalf {
    type Error = io::Error;
    fn poll_ready(self: Pin<&mut Self>, cx: &mut Context<'_>) -> Poll<Result<(), Self::Error>> {
        let mut st = self.0.0.lock().unwrap();
        if st.sink_err || st.receiver_gone {
            return Poll::Ready(Err(io::Error::new(io::ErrorKind::BrokenPipe, "injected sink error")));
        }
        if st.blocked {
            st.tx_waker = Some(cx.waker().clone());
            return Poll::Pending;
        }
        Poll::Ready(Ok(()))
    }
    fn start_send(self: Pin<&mut Self>, item: Bytes) -> Result<(), Self::Error> {
        let mut st = self.0.0.lock().unwrap();
        if st.sink_err || st.receiver_gone {
            return Err(io::Error::new(io::ErrorKind::BrokenPipe, "injected sink error"));
        }
        if let Some((at, kind)) = st.fault_at {
            if st.emitted + 1 >= at {
                st.fault_at = None;
                st.faulted = true;
                tr(json!({"ev": "fault", "kind": kind, "dir": self.0.1, "at": at}));
                match kind {
                    "sink_err" => {
                        st.sink_err = true;
                        st.clear_in_flight(self.0.1);
                        return Err(io::Error::new(io::ErrorKind::BrokenPipe, "injected sink error"));
                    }
                    "stream_err" => {
                        st.clear_in_flight(self.0.1);
                        st.stream_err = true;
                        st.stalled = true;
                    }
                    "stream_end" => {
                        st.clear_in_flight(self.0.1);
                        st.stream_end = true;
                        st.stalled = true;
                    }
                    "stall_both" => {
                        st.stalled = true;
                        if let Some(o) = st.other.as_ref().and_then(|w| w.upgrade()) {
                            o.lock().unwrap().stalled = true;
                        }
                    }
                    _ => st.stalled = true,
                }
                if let Some(w) = st.rx_waker.take() {
                    w.wake();
                }
            }
        }
        st.emitted += 1;
        if !st.quiet {
            tr(json!({"ev": "wire_emit", "dir": self.0.1, "b": frame_json(&item, st.verbatim), "len": item.len(), "n": st.emitted}));
        }
        st.out.push_back(item);
        Ok(())
    }
    fn poll_flush(self: Pin<&mut Self>, _: &mut Context<'_>) -> Poll<Result<(), Self::Error>> {
        let st = self.0.0.lock().unwrap();
        if st.sink_err {
            return Poll::Ready(Err(io::Error::new(io::ErrorKind::BrokenPipe, "injected sink error")));
        }
        Poll::Ready(Ok(()))
    }
    fn poll_close(self: Pin<&mut Self>, _: &mut Context<'_>) -> Poll<Result<(), Self::Error>> {
        Poll::Ready(Ok(()))
    }
}

impl Stream for StreamHalf {
    type Item = Result<Bytes, io::Error>;
    fn poll_next(self: Pin<&mut Self>, cx: &mut Context<'_>) -> Poll<Option<Self::Item>> {
        let mut st = self.0.0.lock().unwrap();
        match st.inbox.pop_front() {
            Some(f) => Poll::Ready(Some(Ok(f))),
            None if st.stream_err => {
                st.stream_err = false;
                st.stream_end = true;
                Poll::Ready(Some(Err(io::Error::new(io::ErrorKind::ConnectionReset, "injected stream error"))))
            }
            None if st.stream_end => Poll::Ready(None),
            // the sender closed its half: end of stream once everything in flight has been delivered
            None if st.sender_gone && st.out.is_empty() && !st.stalled => Poll::Ready(None),
            None => {
                st.rx_waker = Some(cx.waker().clone());
                Poll::Pending
            }
        }
    }
}

impl Drop for SinkHalf {
    fn drop(&mut self) {
        let mut st = self.0.0.lock().unwrap();
        st.sender_gone = true;
        if let Some(w) = st.rx_waker.take() {
            w.wake();
        }
    }
}

impl Drop for StreamHalf {
    fn drop(&mut self) {
        let mut st = self.0.0.lock().unwrap();
        st.receiver_gone = true;
        if let Some(w) = st.tx_waker.take() {
            w.wake();
        }
    }
}

// ------------------------------------------------------------------------------------------------ byte-stream transport
// `Connect::io` runs chmux over a byte stream with a 4-byte little-endian length prefix per frame.  These adapters put
// that byte stream on top of a harness `Link` (which carries frames), so that delivery control, fault injection and
// wire logging stay the same: the write half parses the prefix and hands complete frames to the link, the read half
// takes frames from the link, prefixes them and hands the bytes out in seeded pieces.

/// Frames at least this long are announced in full but only their first three bytes are delivered (0 = off).
pub static STREAM_WITHHOLD: std::sync::atomic::AtomicUsize = std::sync::atomic::AtomicUsize::new(0);

/// Write half: bytes in, frames out (to the link's sink).
pub struct ByteSink {
    sink: SinkHalf,
    buf: Vec<u8>,
    /// a frame longer than this is a finding (the peer advertised it as its max_frame_length)
    pub peer_max_frame: usize,
}

impl ByteSink {
    pub fn new(sink: SinkHalf, peer_max_frame: usize) -> Self {
        ByteSink { sink, buf: Vec::new(), peer_max_frame }
    }
    fn drain_frames(&mut self) -> io::Result<()> {
        loop {
            if self.buf.len() < 4 {
                return Ok(());
            }
            let len = u32::from_le_bytes([self.buf[0], self.buf[1], self.buf[2], self.buf[3]]) as usize;
            if len > self.peer_max_frame {
                tr(json!({"ev": "st_oversize_emitted", "len": len, "max": self.peer_max_frame, "dir": self.sink.0.1}));
            }
            if self.buf.len() < 4 + len {
                return Ok(());
            }
            let frame = Bytes::copy_from_slice(&self.buf[4..4 + len]);
            self.buf.drain(..4 + len);
            Pin::new(&mut self.sink).start_send(frame)?;
        }
    }
}

impl tokio::io::AsyncWrite for ByteSink {
    fn poll_write(mut self: Pin<&mut Self>, cx: &mut Context<'_>, data: &[u8]) -> Poll<io::Result<usize>> {
        match Pin::new(&mut self.sink).poll_ready(cx) {
            Poll::Ready(Ok(())) => {}
            Poll::Ready(Err(e)) => return Poll::Ready(Err(e)),
            Poll::Pending => return Poll::Pending,
        }
        self.buf.extend_from_slice(data);
        self.drain_frames()?;
        Poll::Ready(Ok(data.len()))
    }
    fn poll_flush(mut self: Pin<&mut Self>, cx: &mut Context<'_>) -> Poll<io::Result<()>> {
        Pin::new(&mut self.sink).poll_flush(cx)
    }
    fn poll_shutdown(mut self: Pin<&mut Self>, cx: &mut Context<'_>) -> Poll<io::Result<()>> {
        Pin::new(&mut self.sink).poll_close(cx)
    }
}

/// Read half: frames in (from the link's stream), bytes out in seeded pieces.
pub struct ByteStream {
    stream: StreamHalf,
    pending: std::collections::VecDeque<u8>,
    rng: Rng,
    ended: bool,
}

impl ByteStream {
    pub fn new(stream: StreamHalf, seed: u64) -> Self {
        ByteStream { stream, pending: Default::default(), rng: Rng::new(seed ^ 0xB17E), ended: false }
    }
}

impl tokio::io::AsyncRead for ByteStream {
    fn poll_read(mut self: Pin<&mut Self>, cx: &mut Context<'_>, out: &mut tokio::io::ReadBuf<'_>) -> Poll<io::Result<()>> {
        if self.pending.is_empty() && !self.ended {
            match Pin::new(&mut self.stream).poll_next(cx) {
                Poll::Ready(Some(Ok(frame))) => {
                    let len = frame.len() as u32;
                    self.pending.extend(len.to_le_bytes());
                    let withhold = STREAM_WITHHOLD.load(Ordering::SeqCst);
                    if withhold > 0 && frame.len() >= withhold {
                        // hostile peer: announces a long frame and sends only its first bytes
                        self.pending.extend(frame.iter().take(3));
                    } else {
                        self.pending.extend(frame.iter());
                    }
                }
                Poll::Ready(Some(Err(e))) => return Poll::Ready(Err(e)),
                Poll::Ready(None) => self.ended = true,
                Poll::Pending => return Poll::Pending,
            }
        }
        if self.pending.is_empty() {
            return Poll::Ready(Ok(())); // end of stream
        }
        // hand out a seeded number of bytes: split points fall anywhere, also inside the length prefix
        let max = self.pending.len().min(out.remaining());
        let n = match self.rng.below(4) {
            0 => 1,
            1 => self.rng.range(1, 7) as usize,
            _ => max,
        }
        .min(max)
        .max(1);
        for _ in 0..n {
            let b = self.pending.pop_front().unwrap();
            out.put_slice(&[b]);
        }
        Poll::Ready(Ok(()))
    }
}

/// Creates both directions of a transport; each knows the other (for faults hitting both).
pub fn link_pair() -> (Link, Link) {
    let ab = Link::new(1);
    let ba = Link::new(2);
    ab.0.lock().unwrap().other = Some(Arc::downgrade(&ba.0));
    ba.0.lock().unwrap().other = Some(Arc::downgrade(&ab.0));
    (ab, ba)
}

impl Link {
    pub fn new(dir: u64) -> Self {
        Link(Arc::new(Mutex::new(LinkState { verbatim: 96, ..Default::default() })), dir)
    }
    pub fn halves(&self) -> (SinkHalf, StreamHalf) {
        (SinkHalf(self.clone()), StreamHalf(self.clone()))
    }
    /// Frames waiting for delivery.
    pub fn pending(&self) -> usize {
        let st = self.0.lock().unwrap();
        if st.stalled { 0 } else { st.out.len() }
    }
    pub fn emitted(&self) -> u64 {
        self.0.lock().unwrap().emitted
    }
    /// Hands the oldest emitted frame to the receiving endpoint.
    pub fn deliver(&self) -> bool {
        let mut st = self.0.lock().unwrap();
        if st.stalled {
            return false;
        }
        if let Some(f) = st.out.pop_front() {
            st.delivered += 1;
            if !st.quiet {
                tr(json!({"ev": "wire_deliver", "dir": self.1, "n": st.delivered}));
            }
            st.inbox.push_back(f);
            if let Some(w) = st.rx_waker.take() {
                w.wake();
            }
            true
        } else {
            false
        }
    }
    /// Injects a raw frame as if the peer had sent it (scripted peer).
    pub fn inject(&self, f: Bytes) {
        let mut st = self.0.lock().unwrap();
        st.inbox.push_back(f);
        if let Some(w) = st.rx_waker.take() {
            w.wake();
        }
    }
    /// Takes the oldest emitted frame without delivering it (scripted peer reads what the endpoint sent).
    pub fn take_out(&self) -> Option<Bytes> {
        self.0.lock().unwrap().out.pop_front()
    }
    pub fn set<Fx: FnOnce(&mut LinkState)>(&self, f: Fx) {
        let mut st = self.0.lock().unwrap();
        f(&mut st);
        let (a, b) = (st.rx_waker.take(), st.tx_waker.take());
        drop(st);
        if let Some(w) = a {
            w.wake();
        }
        if let Some(w) = b {
            w.wake();
        }
    }
}

// ------------------------------------------------------------------------------------------------ owned operations

pub struct Flag(pub AtomicBool);

impl Wake for Flag {
    fn wake(self: Arc<Self>) {
        self.0.store(true, Ordering::SeqCst);
    }
}

/// An API call owned by the harness: polled one poll at a time, droppable after any poll.
pub struct Op<T> {
    pub id: u64,
    pub label: u64,
    fut: Option<Pin<Box<dyn Future<Output = T> + Send>>>,
    flag: Arc<Flag>,
    pub polls: u64,
}

pub enum Polled<T> {
    Ready(T),
    Pending,
    Panicked,
}

impl<T> Op<T> {
    pub fn new(id: u64, label: u64, fut: impl Future<Output = T> + Send + 'static) -> Self {
        Op { id, label, fut: Some(Box::pin(fut)), flag: Arc::new(Flag(AtomicBool::new(true))), polls: 0 }
    }
    pub fn runnable(&self) -> bool {
        self.flag.0.load(Ordering::SeqCst)
    }
    pub fn poll(&mut self) -> Polled<T> {
        self.flag.0.store(false, Ordering::SeqCst);
        self.polls += 1;
        let w = Waker::from(self.flag.clone());
        let mut cx = Context::from_waker(&w);
        let prev = CUR.swap(self.label, Ordering::SeqCst);
        let fut = self.fut.as_mut().unwrap();
        let r = std::panic::catch_unwind(AssertUnwindSafe(|| fut.as_mut().poll(&mut cx)));
        CUR.store(prev, Ordering::SeqCst);
        match r {
            Ok(Poll::Ready(v)) => {
                self.fut = None;
                Polled::Ready(v)
            }
            Ok(Poll::Pending) => Polled::Pending,
            Err(_) => {
                self.fut = None;
                Polled::Panicked
            }
        }
    }
}

/// Lets every task spawned on the runtime run until it is idle.
pub async fn settle() {
    for _ in 0..4 {
        tokio::task::yield_now().await;
    }
}

/// Runs `f` with label `label` as current (for synchronous API calls and drops).
pub fn with_label<R>(label: u64, f: impl FnOnce() -> R) -> R {
    let prev = CUR.swap(label, Ordering::SeqCst);
    let r = f();
    CUR.store(prev, Ordering::SeqCst);
    r
}

/// Builds the runtime every scenario runs on.
pub fn runtime() -> tokio::runtime::Runtime {
    tokio::runtime::Builder::new_current_thread().enable_time().start_paused(true).build().unwrap()
}

/// `exec::are_threads_available()` probes with a plain OS thread that the paused clock does not know about;
/// run it once on an unpaused runtime before any scenario.
pub fn prewarm() {
    let rt = tokio::runtime::Builder::new_current_thread().enable_time().build().unwrap();
    rt.block_on(async {
        let _ = remoc::exec::are_threads_available().await;
    });
}


// ------------------------------------------------------------------------------------------------ task-style workloads

/// Spawns a task of the workload itself: labelled and subject to H1 poll deferral like remoc's own tasks.
pub fn spawn_d<F>(label: u64, fut: F) -> tokio::task::JoinHandle<F::Output>
where
    F: Future + Send + 'static,
    F::Output: Send + 'static,
{
    tokio::spawn(remoc::verif::Deferred::new(Labeled::new(label, fut)))
}

/// Polls `fut` at most `polls` times, then drops it (cancellation after any poll). Returns None if cancelled.
pub struct CancelAfter<F> {
    inner: Option<Pin<Box<F>>>,
    left: u64,
}

pub fn cancel_after<F: Future>(fut: F, polls: u64) -> CancelAfter<F> {
    CancelAfter { inner: Some(Box::pin(fut)), left: polls }
}

impl<F: Future> Future for CancelAfter<F> {
    type Output = Option<F::Output>;
    fn poll(mut self: Pin<&mut Self>, cx: &mut Context<'_>) -> Poll<Self::Output> {
        if self.left == 0 {
            self.inner = None;
            return Poll::Ready(None);
        }
        self.left -= 1;
        match self.inner.as_mut().unwrap().as_mut().poll(cx) {
            Poll::Ready(v) => {
                self.inner = None;
                Poll::Ready(Some(v))
            }
            Poll::Pending => {
                if self.left == 0 {
                    self.inner = None;
                    return Poll::Ready(None);
                }
                // poll again after everything else had a turn, whether or not the inner future gets woken
                cx.waker().wake_by_ref();
                Poll::Pending
            }
        }
    }
}

/// Waits for `fut` with a generous bound that also lets remoc's real-time helper threads make progress: the first
/// `fast` polls are back to back, after that every poll is preceded by a 100 microsecond sleep, for at most
/// `slow_ms` milliseconds of real time.  `None` means: still pending after all that.
pub async fn patient<F: Future>(fut: F, fast: u64, slow_ms: u64) -> Option<F::Output> {
    let mut fut = Box::pin(fut);
    let mut polls = 0u64;
    let mut t0: Option<std::time::Instant> = None;
    std::future::poll_fn(move |cx| {
        polls += 1;
        if polls > fast {
            let start = *t0.get_or_insert_with(std::time::Instant::now);
            if start.elapsed().as_millis() as u64 > slow_ms {
                return Poll::Ready(None);
            }
            std::thread::sleep(std::time::Duration::from_micros(100));
        }
        match fut.as_mut().poll(cx) {
            Poll::Ready(v) => Poll::Ready(Some(v)),
            Poll::Pending => {
                cx.waker().wake_by_ref();
                Poll::Pending
            }
        }
    })
    .await
}

/// Yields `n` times (a task holding a guard / being slow).
pub async fn yields(n: u64) {
    for _ in 0..n {
        tokio::task::yield_now().await;
    }
}

/// Background delivery of frames at a seeded random pace.
pub fn spawn_pump(links: Vec<Link>, seed: u64) -> tokio::task::JoinHandle<()> {
    let mut rng = Rng::new(seed ^ 0x9097);
    tokio::spawn(async move {
        loop {
            for l in &links {
                match rng.below(4) {
                    0 => {}
                    1 | 2 => {
                        l.deliver();
                    }
                    _ => {
                        while l.deliver() {}
                    }
                }
            }
            tokio::task::yield_now().await;
        }
    })
}

/// Waits until all tasks have finished or nothing has been recorded and no frame has been in flight for `idle`
/// consecutive scheduler rounds. Returns the number of unfinished tasks (0 = all done).
pub async fn wait_tasks<T>(handles: &mut Vec<tokio::task::JoinHandle<T>>, links: &[Link], idle: u64) -> usize {
    let mut quiet = 0u64;
    let mut last = trace_len();
    loop {
        handles.retain(|h| !h.is_finished());
        if handles.is_empty() {
            return 0;
        }
        tokio::task::yield_now().await;
        let now = trace_len();
        if now != last || links.iter().any(|l| l.pending() > 0) {
            last = now;
            quiet = 0;
        } else {
            quiet += 1;
            if quiet > idle {
                // Streamed (de)serialization runs on blocking threads in real time: before concluding that
                // nothing will ever happen, give those threads a real-time grace period.
                let mut progressed = false;
                let base_ms: u64 = std::env::var("VERIF_GRACE_MS").ok().and_then(|v| v.parse().ok()).unwrap_or(1500);
                // on a loaded machine helper threads are scheduled late: measure how long a trivial blocking task
                // takes right now and stretch the grace period accordingly (at most tenfold)
                let probe_t = std::time::Instant::now();
                let probe = tokio::task::spawn_blocking(|| ());
                while !probe.is_finished() && probe_t.elapsed().as_millis() < 2000 {
                    std::thread::sleep(std::time::Duration::from_micros(200));
                    tokio::task::yield_now().await;
                }
                let probe_ms = probe_t.elapsed().as_millis() as u64;
                let grace_ms = base_ms.max(probe_ms * 300).min(base_ms * 10);
                let t0 = std::time::Instant::now();
                while (t0.elapsed().as_millis() as u64) < grace_ms {
                    std::thread::sleep(std::time::Duration::from_millis(1));
                    for _ in 0..50 {
                        tokio::task::yield_now().await;
                    }
                    let before = handles.len();
                    handles.retain(|h| !h.is_finished());
                    if trace_len() != last || links.iter().any(|l| l.pending() > 0) || handles.len() != before {
                        progressed = true;
                        break;
                    }
                }
                if !progressed {
                    return handles.len();
                }
                last = trace_len();
                quiet = 0;
            }
        }
    }
}
