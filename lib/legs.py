"""Custom legs: specification -> implementation replay."""
import json, os, re, shutil
import runner as R


def tlc_print_lines(spec, cfg, workdir, extra=None, timeout=900, workers=1):
    """Runs TLC and returns the JSON lines it printed with PrintT(ToJson(..))."""
    rc, out, dt = R.tlc(spec, cfg, workdir, workers=workers, timeout=timeout, extra=extra)
    if "Error:" in out and "No error has been found" not in out:
        raise R.ToolError("generator %s failed:\n%s" % (spec, out[-2000:]))
    lines = []
    for l in out.splitlines():
        if l.startswith('"{'):
            try:
                lines.append(json.loads(l))
            except Exception:
                pass
    states, gen = R.tlc_counts(out)
    return lines, states, gen, dt


def wire_vectors(leg, prop, tier, seed, workdir, report):
    """C09: complete case table of Wire.tla against remoc's codec (hook H3); C08 uses the decoder half (only_t="bytes":
    truncated, over-long, unknown, flag-polluted frames and invalid exchanged configurations must be rejected)."""
    lines, states, gen, dt = tlc_print_lines("WireGen.tla", "WireGen.cfg", workdir)
    if len(lines) < 500:
        raise R.ToolError("WireGen produced only %d vectors" % len(lines))
    vec = os.path.join(workdir, "wire_vectors.ndjson")
    with open(vec, "w") as f:
        f.write("\n".join(lines) + "\n")
    res = os.path.join(workdir, "wire_results.ndjson")
    rc, out, dt2 = R.run([R.REPLAY, "wire", vec, res], 600)
    if rc != 0:
        raise R.ToolError("replay wire failed: " + out[-1000:])
    bad = []
    n = 0
    kinds = set()
    for l in open(res):
        r = json.loads(l)
        v = r["vector"]
        if leg.get("only_t") and v.get("t") != leg["only_t"]:
            continue
        n += 1
        kinds.add((v.get("t"), (v.get("m") or v.get("d") or {}).get("k")))
        if not r["ok"]:
            bad.append(r)
    viols = []
    if bad:
        rdir = os.path.join(R.ROOT, "evidence", "replay")
        os.makedirs(rdir, exist_ok=True)
        rp = os.path.join(rdir, "%s_wire_vectors.ndjson" % prop)
        with open(rp, "w") as f:
            for r in bad:
                f.write(json.dumps(r) + "\n")
        viols.append({"property": prop, "reason": "codec disagrees with Wire.tla on %d vectors, e.g. %s" % (len(bad), "; ".join(bad[0]["problems"])[:200]),
                      "replay": rp, "leg": leg["name"], "seed": "-", "vector": json.dumps(bad[0]["vector"])[:300]})
    report["legs"].append({"kind": "replay", "name": leg["name"], "behaviours": n, "validated": n - len(bad), "distinct_nontrivial": len(kinds),
                           "violations": len(bad), "wall_s": round(dt + dt2, 1), "exhaustive": True,
                           "sample": [json.loads(x) for x in lines[:2]] + [json.loads(lines[-1])]})
    return viols


def gen_replay(leg, prop, tier, seed, workdir, report):
    """TLC generates behaviours of a model; the harness executes them on the real code; the recorded runs are
    validated against the trace specification."""
    depth = leg["depth"][0 if tier == "quick" else 1]
    cfgp = os.path.join(workdir, "gen.cfg")
    base = open(os.path.join(R.SPEC, leg["gen_cfg"])).read()
    open(cfgp, "w").write(re.sub(r"Depth = \d+", "Depth = %d" % depth, base))
    extra = leg.get("gen_extra")
    if extra:
        extra = [x.replace("{N}", str(leg.get("gen_num", (300, 3000))[0 if tier == "quick" else 1])).replace("{SEED}", str(seed)) for x in extra]
    lines, states, gen, dt = tlc_print_lines(leg["gen_spec"], cfgp, workdir, timeout=leg.get("timeout", 1800), extra=extra)
    lines = sorted(set(lines))
    if leg.get("exclude"):
        lines = [l for l in lines if not re.search(leg["exclude"], l)]
    if leg.get("include"):
        lines = [l for l in lines if re.search(leg["include"], l)]
    if leg.get("augment"):
        lines = [json.dumps(leg["augment"](json.loads(l), i)) for i, l in enumerate(lines)]
    limit = leg["limit"][0 if tier == "quick" else 1]
    if len(lines) < leg.get("min_behaviours", 100):
        raise R.ToolError("generator produced only %d behaviours" % len(lines))
    # deterministic subsample when there are too many
    if len(lines) > limit:
        step = len(lines) / float(limit)
        off = seed % max(1, int(step))
        lines = [lines[min(len(lines) - 1, int(i * step) + off)] for i in range(limit)]
    script = os.path.join(workdir, "%s_script.ndjson" % leg["name"])
    with open(script, "w") as f:
        f.write("\n".join(lines) + "\n")
    tr = os.path.join(workdir, "%s.ndjson" % leg["name"])
    R.drive(leg["workload"], seed, 1, tr, {"script": script})
    tleg = {"kind": "trace", "name": leg["name"], "workload": leg["workload"], "n": (len(lines), len(lines)), "opts": {},
            "tspec": leg["tspec"], "tcfg": leg["tcfg"], "require": leg.get("require", {}), "nontrivial": leg.get("nontrivial", []),
            "prerecorded": tr}
    viols = R.trace_leg(tleg, prop, tier, seed, workdir, [], report)
    report["legs"][-1]["kind"] = "replay"
    report["legs"][-1]["behaviours"] = len(lines)
    report["legs"][-1]["generator_states"] = states
    return viols


def apalache_inductive(leg, prop, tier, seed, workdir, report):
    """Unbounded safety with Apalache: Init => IndInv, IndInv /\\ Next => IndInv', IndInv => each consequence; the named
    deviation must break the induction step."""
    import subprocess, time, shutil
    spec = os.path.join(R.SPEC, leg["spec"])
    out_dir = os.path.join(workdir, "apalache")
    runs = [("base", ["--cinit=ConstInit", "--inv=IndInv", "--length=0"], True),
            ("step", ["--cinit=ConstInit", "--init=IndInit", "--inv=IndInv", "--length=1"], True)]
    for c in leg.get("consequences", []):
        runs.append(("implies_" + c, ["--cinit=ConstInit", "--init=IndInit", "--inv=" + c, "--length=0"], True))
    if leg.get("deviation_cinit"):
        runs.append(("deviation", ["--cinit=" + leg["deviation_cinit"], "--init=IndInit", "--inv=IndInv", "--length=1"], False))
    viols = []
    t0 = time.time()
    res = []
    for name, args, expect_ok in runs:
        cmd = ["timeout", str(leg.get("timeout", 900)), "apalache-mc", "check", "--out-dir=" + out_dir] + args + [spec]
        p = subprocess.run(cmd, stdout=subprocess.PIPE, stderr=subprocess.STDOUT, text=True, cwd=workdir)
        ok = "The outcome is: NoError" in p.stdout
        err = "The outcome is: Error" in p.stdout
        if not ok and not err:
            raise R.ToolError("apalache did not decide %s/%s:\n%s" % (leg["spec"], name, p.stdout[-1500:]))
        res.append({"obligation": name, "holds": ok})
        if ok != expect_ok:
            rdir = os.path.join(R.ROOT, "evidence", "replay")
            os.makedirs(rdir, exist_ok=True)
            rp = os.path.join(rdir, "%s_apalache_%s.txt" % (prop, name))
            open(rp, "w").write(p.stdout[-6000:])
            why = ("inductive obligation %s fails" % name) if expect_ok else "the deviation no longer breaks the induction step (stale deviation)"
            viols.append({"property": prop, "reason": "apalache: " + why, "replay": rp, "leg": leg["name"], "seed": "-"})
    shutil.rmtree(out_dir, ignore_errors=True)
    report["legs"].append({"kind": "model", "name": leg["name"], "spec": leg["spec"], "cfg": "apalache:" + leg["name"], "engine": "apalache (inductive invariant, unbounded constants)",
                           "obligations": res, "wall_s": round(time.time() - t0, 1), "states": 0, "transitions": 0, "violations": len(viols)})
    return viols
