"""Per-property legs (model configurations, workloads + trace specifications, replay legs)."""

import legs

CT = {"tspec": "ChmuxTrace.tla", "tcfg": "ChmuxTrace.cfg"}
PT = {"tspec": "ChmuxPeerTrace.tla", "tcfg": "ChmuxPeerTrace.cfg"}
RT = {"tspec": "RobsTrace.tla", "tcfg": "RobsTrace.cfg"}
TT = {"tspec": "TypedTrace.tla", "tcfg": "TypedTrace.cfg"}
XT = {"tspec": "RtcTrace.tla", "tcfg": "RtcTrace.cfg"}
IT = {"tspec": "IoTrace.tla", "tcfg": "IoTrace.cfg"}
WT = {"tspec": "WiringTrace.tla", "tcfg": "WiringTrace.cfg"}
ET = {"tspec": "RobsErrTrace.tla", "tcfg": "RobsErrTrace.cfg"}
HT = {"tspec": "HandleTrace.tla", "tcfg": "HandleTrace.cfg"}
SIM = ["-simulate", "num={N}", "-depth", "8", "-seed", "{SEED}"]


def robs_tight(d, i):
    # the mirror's size limit is exactly the largest size the collection reaches: never exceeded, so the mirror must not fail
    d["max_size"] = max(1, d.get("tight", 1000))
    return d


def robs_remote(d, i):
    d["remote"] = d["coll"] != "list"
    d["seed"] = i + 1
    return d


def data_leg(name, n, opts=None, require=None, nontrivial=None):
    d = {"kind": "trace", "name": name, "workload": "data", "n": n, "opts": opts or {}, "require": require or {},
         "nontrivial": nontrivial or []}
    d.update(CT)
    return d


def model(cfg, spec="ChmuxData.tla", **kw):
    d = {"kind": "model", "spec": spec, "cfg": cfg}
    d.update(kw)
    return d


def life_leg(name, n, opts=None, require=None, nontrivial=None):
    d = {"kind": "trace", "name": name, "workload": "life", "n": n, "opts": opts or {}, "require": require or {},
         "nontrivial": nontrivial or []}
    d.update(CT)
    return d


CHECKS = {
    "C01": {
        "rule": "seeded chmux scenarios (config pair, message sizes 0..3x max_data, send/try_send/send_chunks/port batches, "
                "cancellation after any poll, random delivery order, H1 deferral); distinct = distinct event sequences; "
                "non-trivial = contains a cancelled send and a chunk-mode receive",
        "assumptions": ["single-threaded schedules (await-to-await atomicity)", "TLC and the Json module are trusted",
                        "payload bytes compared verbatim (frames <= 96 bytes)"],
        "legs": [
            model("ChmuxData_MC_small.cfg", min_states=100000),
            model("ChmuxData_DevF1.cfg", expect_violation="C01_Prefix"),
            data_leg("data_cancel", (120, 3000), {"cancel": 1, "ports": 1},
                     require={r'"ev":"api_cancel"': 20, r'"res":"cancelled"': 3, r'"kind":"try_send"': 20, r'"kind":"send_chunks"': 20,
                              r'"res":"chunks"': 10},
                     nontrivial=[r'"ev":"api_cancel"', r'"res":"chunk"']),
            data_leg("data_nocancel", (60, 1500), {"cancel": 0, "ports": 1, "defer": 2}),
            data_leg("data_bp", (80, 2000), {"cancel": 1, "ports": 1, "bp": 1}, nontrivial=[r'"ev":"backpressure"', r'"ev":"api_cancel"']),
        ],
    },
    "C02": {
        "rule": "same scenarios as C01; wire monitor at every prefix; non-trivial = credit frames were delayed "
                "(a PortCredits frame emitted but delivered after further data frames)",
        "assumptions": ["frames decoded by Wire!Dec (independent of remoc's decoder)"],
        "legs": [
            # unbounded: credit conservation as an inductive invariant for every buffer size (Apalache)
            dict(kind="custom", fn=legs.apalache_inductive, name="credit_inductive", spec="apalache/Credit.tla",
                 consequences=["C02_BufferBound", "C02_GrantBound"], deviation_cinit="ConstInitDev"),
            model("ChmuxData_MC_small.cfg", min_states=100000),
            model("ChmuxData_MC_ports.cfg", min_states=10000),
            data_leg("data_cancel", (120, 3000), {"cancel": 1, "ports": 1}, require={r'"b":\[9,': 50, r'"b":\[8,': 10},
                     nontrivial=[r'"b":\[9,']),
            data_leg("data_big", (40, 1000), {"cancel": 0, "ports": 1, "len_factor": 6, "sends": 8}, nontrivial=[r'"b":\[9,']),
        ],
    },
    "C03": {
        "rule": "same scenarios as C01 plus residual-credit port batches; verdicts at quiescence; non-trivial = contains a "
                "cancelled operation or a port batch",
        "assumptions": ["liveness judged at quiescence of a healthy transport (all frames delivered, receivers waiting)"],
        "legs": [
            # a send waiting for credit is abandoned, another one waits, a single credit return arrives: the waiter must be woken
            dict(CT, kind="trace", name="wake", workload="wake", n=(80, 1200), opts={}, require={r'"ev":"api_cancel"': 80, r'"res":"data"': 80}, nontrivial=[r'"ev":"api_cancel"']),
            # many zero-length messages through a small window: every one costs a credit that has to come back
            data_leg("data_empty", (80, 1500), {"sends": 24, "len_factor": 0, "cancel": 0, "ports": 0}, require={r'"data":\[\]': 800}, nontrivial=[r'"data":\[\]']),
            model("ChmuxData_MC_small.cfg", min_states=100000),
            model("ChmuxData_MC_ports.cfg", min_states=10000),
            model("ChmuxData_MC_rbuf6.cfg", min_states=1000),
            model("ChmuxData_DevF2.cfg", expect_violation="C03_Conservation"),
            model("ChmuxData_DevF3.cfg", expect_violation="C03_NoEmptyPorts"),
            data_leg("data_cancel", (150, 3000), {"cancel": 1, "ports": 1}, require={r'"ev":"quiescent"': 100, r'"kind":"connect"': 10},
                     nontrivial=[r'"ev":"api_cancel"']),
            data_leg("data_ports", (80, 2000), {"cancel": 1, "ports": 1, "sends": 10}, nontrivial=[r'"kind":"connect"']),
            data_leg("data_bp", (120, 3000), {"cancel": 1, "ports": 1, "bp": 1}, require={r'"ev":"backpressure"': 100},
                     nontrivial=[r'"ev":"backpressure"', r'"ev":"api_cancel"']),
            dict(CT, kind="trace", name="ret_cancel", workload="ret_cancel", n=(60, 1000), opts={}, require={r'"kind":"close"': 50, r'"ev":"api_cancel"': 50},
                 nontrivial=[r'"ev":"api_cancel"', r'"kind":"close"']),
            dict(CT, kind="trace", name="block", workload="block", n=(60, 1500), opts={}, require={r'"ev":"quiescent"': 50},
                 nontrivial=[r'"kind":"connect"|"kind":"send"']),
        ],
    },
    "C07": {
        "rule": "seeded lifecycle scenarios: connects/accepts/rejects/dropped requests from both sides, max_ports 2..4, "
                "data, close, sender/receiver/client/listener drops in random order, then everything dropped; "
                "non-trivial = at least one port was opened and a handle dropped before the final teardown",
        "assumptions": ["single-threaded schedules", "task count read from tokio RuntimeMetrics::num_alive_tasks"],
        "legs": [
            model("ChmuxLife_MC1S.cfg", spec="ChmuxLife.tla", min_states=100000, quick_only=True),
            model("ChmuxLife_MC1.cfg", spec="ChmuxLife.tla", min_states=100000, thorough_only=True, timeout=1800),
            life_leg("life", (120, 3000), {}, require={r'"ev":"alloc_check"': 100, r'"ev":"tasks"': 100, r'"what":"listener"': 50,
                                                       r'"ev":"h_port_free"': 100},
                     nontrivial=[r'"ev":"h_port_free"', r'"kind":"client_connect"']),
            life_leg("life_calm", (40, 1000), {"calm": 1, "cancel": 0}, nontrivial=[r'"ev":"h_port_free"']),
            life_leg("life_ldrop", (100, 2000), {"ldrop": 1, "connects": 8, "data": 0}, nontrivial=[r'"what":"listener"']),
            # port numbers released while connects wait for one (some of the waiters cancelled); accepts cancelled under back-pressure
            life_leg("life_exhaust", (120, 3000), {"connects": 10, "max_ports": 2}, require={r'"free_ports":\[(true|false),(true|false)\]': 100},
                     nontrivial=[r'"ev":"api_cancel"']),
            dict(CT, kind="trace", name="acc_cancel", workload="acc_cancel", n=(120, 3000), opts={}, require={r'"ev":"api_cancel"': 50, r'"kind":"req_accept"': 50},
                 nontrivial=[r'"ev":"api_cancel"']),
        ],
    },
    "C10": {
        "rule": "same lifecycle scenarios; connect storms with connect_queue 1..3 and max_ports 2..4, wait flag random, "
                "cancelled connect/accept futures; non-trivial = contains an accepted and a refused request",
        "assumptions": ["refusal reasons are matched against the frames delivered to the requesting endpoint"],
        "legs": [
            model("ChmuxLife_MC1S.cfg", spec="ChmuxLife.tla", min_states=100000),
            life_leg("life", (120, 3000), {"connects": 8}, require={r'"kind":"client_connect"': 300, r'"err":"rejected"': 10,
                                                                      r'"err":"remote_ports"': 3, r'"kind":"req_accept"': 20,
                                                                      r'"ev":"req_drop"': 10},
                     nontrivial=[r'"ev":"api_done","local"', r'"err":"re']),
            life_leg("life_storm", (60, 1500), {"connects": 12, "data": 0, "max_ports": 3}, nontrivial=[r'"err":"']),
            life_leg("life_exhaust", (120, 3000), {"connects": 10, "max_ports": 2}, require={r'"free_ports":\[(true|false),(true|false)\]': 100},
                     nontrivial=[r'"err":"local_ports"|"err":"remote_ports"']),
            dict(CT, kind="trace", name="acc_cancel", workload="acc_cancel", n=(120, 3000), opts={}, require={r'"ev":"api_cancel"': 50, r'"kind":"req_accept"': 50},
                 nontrivial=[r'"ev":"api_cancel"', r'"kind":"req_accept"']),
            life_leg("life_ldrop", (100, 2000), {"ldrop": 1, "connects": 8, "data": 0}, nontrivial=[r'"what":"listener"']),
            life_leg("life_bp", (120, 3000), {"connects": 8, "bp": 1, "max_ports": 3}, require={r'"ev":"backpressure"': 100},
                     nontrivial=[r'"ev":"backpressure"', r'"kind":"req_accept"']),
        ],
    },
    "C11": {
        "rule": "lifecycle scenarios with data: close / drop of either half at random positions of short message streams; "
                "non-trivial = a close or drop happened while messages were outstanding",
        "assumptions": ["what a sender 'knows' is read from the H2 hook marking the dispatcher's processing of ReceiveClose/ReceiveFinish"],
        "legs": [
            # a receiver is closed while its endpoint's event queue is full; the first close() is abandoned, the second must reach the peer
            dict(CT, kind="trace", name="close_retry", workload="ret_cancel", n=(80, 1200), opts={}, require={r'"kind":"close"': 150}, nontrivial=[r'"kind":"close"']),
            # sending endpoint of a remote mpsc channel: local queue, back channel, biased select (deviation = seeded change C11_m2)
            model("Mpsc_MC.cfg", spec="Mpsc.tla", min_states=150),
            model("Mpsc_DevQueueFirst.cfg", spec="Mpsc.tla", expect_violation="C11_NoStartAfterCloseArrived"),
            model("ChmuxLife_MC1S.cfg", spec="ChmuxLife.tla", min_states=100000, quick_only=True),
            model("ChmuxLife_MC1C.cfg", spec="ChmuxLife.tla", min_states=1000000, thorough_only=True, timeout=1800),
            life_leg("life_data", (150, 3000), {"connects": 4}, require={r'"kind":"close"': 50, r'"err":"closed_graceful"': 10,
                                                                          r'"err":"closed_dropped"': 10, r'"res":"none"': 30,
                                                                          r'"kind":"closed"': 30},
                     nontrivial=[r'"kind":"close"|"what":"receiver"', r'"kind":"send"']),
            dict(TT, kind="trace", name="typed_mpsc_close", workload="typed_mpsc", n=(200, 3000), opts={}, require={r'"ev":"t_close"': 30},
                 nontrivial=[r'"ev":"t_close"']),
            # a sender that keeps its local queue non-empty while the receiver closes: the close must become observable
            dict(TT, kind="trace", name="typed_mpsc_flood", workload="typed_mpsc", n=(100, 1500), opts={"flood": 1}, require={r'"ev":"t_close"': 80, r'"ev":"t_flood_done"': 80},
                 nontrivial=[r'"ev":"t_close"']),
            life_leg("life_override", (120, 3000), {"connects": 3, "calm": 1, "cancel": 0}, require={r'"override":true': 50, r'"kind":"close"': 30},
                     nontrivial=[r'"override":true', r'"kind":"close"']),
        ],
    },
    "C05": {
        "rule": "seeded parcels with 0-6 channel halves (mpsc, oneshot, watch, broadcast, lr, bin, io; sender and receiver halves) in an option, a "
                "vector, a map and a boxed nested parcel, a third of them padded beyond max_data_size (streamed, serialized twice), 1-3 parcels per "
                "scenario over 1-3 connections (lr only over one), an item queued in a travelling mpsc receiver before it leaves; every received half "
                "is used once, the counterpart kept at the origin checks the channel id of what arrives; port limits of 5 and 3 per endpoint; "
                "connection cut; distinct = distinct event sequences; non-trivial = a parcel with at least two halves arrived",
        "assumptions": ["every channel carries its own id in its messages, so a connection to a different channel is visible at either end",
                        "the receiving application keeps calling recv on the base channel (a drain task), as the port requests of a value whose "
                        "deserialization failed are only answered by the next recv call"],
        "legs": [
            model("Wiring_MC.cfg", spec="Wiring.tla", min_states=1000),
            model("Wiring_DevPos.cfg", spec="Wiring.tla", expect_violation="C05_OneToOne"),
            # port requests through three forwarding endpoints; the deviation (id taken from the received port number, seeded change
            # C05_m1) is invisible with one forwarder and found with two
            model("WiringFwd_MC3.cfg", spec="WiringFwd.tla", min_states=100),
            model("WiringFwd_Dev2.cfg", spec="WiringFwd.tla", expect_violation="C05_ConnectedUnlessRejected"),
            dict(WT, kind="trace", name="wiring", workload="wiring", n=(300, 5000), opts={}, require={r'"ev":"h_use"': 600, r'"kind":"(bin|io|lr)_': 150, r'"hops":3': 50, r'"kind":"nest_tx"': 40, r'"kind":"binnest_tx"': 15},
                 nontrivial=[r'"ev":"w_recv","id":\d+\}|"cids":\[\d+,\d+', r'"ev":"h_use"']),
            dict(WT, kind="trace", name="wiring_hops3", workload="wiring", n=(150, 2000), opts={"hops": 3}, require={r'"ev":"h_use"': 300}, nontrivial=[r'"ev":"h_use"']),
            dict(WT, kind="trace", name="wiring_ports5", workload="wiring", n=(200, 3000), opts={"max_ports": 5}, require={r'ports exhausted': 50, r'"got":-1': 100},
                 nontrivial=[r'"got":-1']),
            dict(WT, kind="trace", name="wiring_ports3", workload="wiring", n=(100, 1500), opts={"max_ports": 3}, require={r'ports exhausted': 50}, nontrivial=[r'"got":-1']),
            dict(WT, kind="trace", name="wiring_cut", workload="wiring", n=(150, 2000), opts={"cut": 1}, require={r'"ev":"fault"': 100}, nontrivial=[r'"ev":"fault"']),
        ],
    },
    "C06": {
        "rule": "fault enumeration: a seeded lifecycle+data workload is run fault-free, then once per (fault kind x direction x "
                "frame index with stride) under a virtual clock; plus faults inside the handshake and long idle periods; "
                "distinct = distinct event sequences; non-trivial = the fault fired while operations were pending",
        "assumptions": ["a healthy transport delivers every frame within a quarter of the smaller timeout",
                        "dropping a transport half is observed by the peer as end of stream / broken pipe (as with TCP)"],
        "legs": [
            model("ChmuxFault_MC.cfg", spec="ChmuxFaultMC.tla", min_states=100000, timeout=1800),
            model("ChmuxFault_MC2.cfg", spec="ChmuxFaultMC.tla", min_states=100000, timeout=3600, thorough_only=True),
            dict(CT, kind="trace", name="fault_sweep", workload="fault", n=(2, 20), opts={"stride": 6},
                 require={r'"ev":"fault"': 60, r'"kind":"stall_both"': 5, r'"settled":true': 40}, nontrivial=[r'"ev":"fault"'], max_rounds=4),
            # the dispatcher dies while a credit return is parked behind a full event queue and a message is still buffered
            dict(CT, kind="trace", name="ret_fault", workload="ret_cancel", n=(40, 400), opts={"die": 1}, require={r'"ev":"fault"': 30, r'"res":"data"': 60},
                 nontrivial=[r'"ev":"fault"']),
            dict(CT, kind="trace", name="hs_fault", workload="hs_fault", n=(3, 30), opts={}, require={r'"kind":"mux_new"': 60},
                 nontrivial=[r'"ev":"fault"']),
            dict(CT, kind="trace", name="idle", workload="idle", n=(12, 40), opts={"periods": 150}, require={r'"b":\[3\]': 100},
                 nontrivial=[r'"b":\[3\]'], quick_only=True),
            dict(CT, kind="trace", name="idle_long", workload="idle", n=(12, 40), opts={"periods": 1000}, require={r'"b":\[3\]': 100},
                 nontrivial=[r'"b":\[3\]'], thorough_only=True),
        ],
    },
    "C08": {
        "rule": "scripted peer against a real endpoint with passive local users: (a) seeded grammar of conforming and hostile frames "
                "(all message kinds, known/unknown/half-closed ports, lengths 0/1/chunk/chunk+1, credits 1 and 2^32-1, duplicates, truncated and "
                "unknown frames), (b) every behaviour TLC generates from ChmuxPeerGen up to the depth bound; the verdict of ChmuxPeer!Handle "
                "is compared with what the endpoint does; non-trivial = the behaviour reaches a terminal verdict after at least one accepted frame",
        "assumptions": ["local users are passive during the scripted phase (nothing consumed/accepted/dropped), which makes the verdict a function of the frame history"],
        "legs": [
            model("ChmuxPeer_MC.cfg", spec="ChmuxPeerMCc.tla", min_states=1000),
            model("ChmuxPeer_Cov.cfg", spec="ChmuxPeerMCc.tla", expect_violation="NeverFullBuffer"),
            dict(kind="custom", fn=legs.wire_vectors, name="wire_malformed", only_t="bytes"),
            # stream transport: a frame whose length prefix exceeds the victim's max_frame_length, payload withheld
            dict(kind="trace", name="stream_hostile", workload="stream_hostile", n=(100, 1500), opts={}, tspec="StreamTrace.tla", tcfg="StreamTrace.cfg",
                 require={r'"ev":"sh_conn_end"': 100}, nontrivial=[r'"ev":"sh_after"']),
            dict(PT, kind="trace", name="peer_hostile", workload="peer", n=(400, 6000), opts={"hostile": 1},
                 require={r'"res":"protocol"': 100, r'"res":"reset"': 3, r'"running":true': 20}, nontrivial=[r'"ev":"run_end"', r'"b":\[5,']),
            dict(PT, kind="custom", fn=legs.gen_replay, name="peer_replay", gen_spec="ChmuxPeerGen.tla", gen_cfg="ChmuxPeerGen.cfg",
                 depth=(3, 4), limit=(2500, 40000), workload="peer_script", nontrivial=[r'"ev":"run_end"']),
        ],
    },
    "C09": {
        "rule": "(a) complete case table generated by TLC from WireGen.tla (every kind x flag combination x boundary values, truncations, "
                "trailing bytes, unknown codes, invalid configurations) against remoc's encoder and decoder; (b) every frame a real endpoint emits "
                "towards a version-2 or version-3 scripted peer and towards a real peer is decoded by Wire!Dec, must be canonical, carry ids iff the "
                "peer announced version >= 3, and the Hello must carry the configured values; non-trivial = distinct (vector type, kind)",
        "assumptions": ["hook H3 re-exports remoc's private codec unchanged"],
        "legs": [
            dict(kind="custom", fn=legs.wire_vectors, name="wire_vectors"),
            dict(PT, kind="trace", name="peer_versions", workload="peer", n=(200, 3000), opts={"hostile": 0},
                 require={r'"version":2': 20, r'"b":\[4,': 50, r'"ev":"a_send_ports"': 30}, nontrivial=[r'"b":\[4,']),
            data_leg("data_frames", (60, 1500), {"cancel": 0, "ports": 1}, require={r'"b":\[8,': 20}, nontrivial=[r'"b":\[8,']),
            # typed connections over Connect::io on a byte stream delivered in arbitrary pieces: values with many channel halves (port
            # request batches) and large items; every frame an endpoint writes must fit the peer's max_frame_length
            dict(kind="trace", name="stream_frames", workload="wiring", n=(200, 3000), opts={"stream": 1}, tspec="StreamTrace.tla", tcfg="StreamTrace.cfg",
                 require={r'"stream":true': 200, r'"ev":"w_recv"': 150}, nontrivial=[r'"ev":"w_recv"']),
            dict(kind="trace", name="stream_typed", workload="typed_base", n=(150, 2000), opts={"stream": 1}, tspec="StreamTrace.tla", tcfg="StreamTrace.cfg",
                 require={r'"stream":true': 150}, nontrivial=[r'"r":"item"']),
        ],
    },
    "C17": {
        "rule": "seeded lock histories: 2-4 readers and 1-2 writers spread over the owner's endpoint and a remote endpoint (1-2 independently "
                "transported lock instances, clones sharing a cache), random hold times, commit or drop, cancelled requests, optional loss of the remote "
                "connection; distinct = distinct event sequences; non-trivial = contains a commit and a read on a different instance",
        "assumptions": ["guards are logged acquired after / released before the real acquisition / release, so logged overlaps are real",
                        "single-threaded runtime; streamed (de)serialization threads get a real-time grace period before a deadlock verdict"],
        "legs": [
            model("RwLock_MCq.cfg", spec="RwLock.tla", min_states=5000),
            model("RwLock_MC.cfg", spec="RwLock.tla", min_states=50000, thorough_only=True, timeout=1800),
            model("RwLock_DevF4.cfg", spec="RwLock.tla", expect_violation="Deadlock"),
            dict(kind="trace", name="rw_local", workload="rwlock", n=(150, 3000), opts={"remote": 0}, tspec="RwLockTrace.tla", tcfg="RwLockTrace.cfg",
                 require={r'"ev":"rw_commit_done"': 100, r'"ev":"rw_drop"': 20}, nontrivial=[r'"ev":"rw_commit_done"', r'"kind":"read"']),
            dict(kind="trace", name="rw_remote", workload="rwlock", n=(150, 3000), opts={"remote": 1}, tspec="RwLockTrace.tla", tcfg="RwLockTrace.cfg",
                 require={r'"ep":2': 200, r'"ev":"rw_cancel"': 5}, nontrivial=[r'"ev":"rw_commit_done"', r'"ep":2']),
            # the remote writer loses its connection right after one of its commits was confirmed: the value must be at the owner
            dict(kind="trace", name="rw_cut_commit", workload="rwlock", n=(120, 2000), opts={"remote": 1, "cut_commit": 1}, tspec="RwLockTrace.tla", tcfg="RwLockTrace.cfg",
                 require={r'"after_commit"': 100}, nontrivial=[r'"after_commit"']),
            dict(kind="trace", name="rw_cut", workload="rwlock", n=(60, 1000), opts={"remote": 1, "cut": 1}, tspec="RwLockTrace.tla", tcfg="RwLockTrace.cfg",
                 require={r'"ev":"fault"': 50}, nontrivial=[r'"ev":"fault"']),
        ],
    },
    "C12": {
        "rule": "seeded call histories on a counter object whose mutable methods are a read-modify-write across a suspension point: 2-4 clients "
                "(clones; local and received over a real connection), 2-4 calls each out of get / add / add_nc (#[no_cancel]) / hang / hang_ref, a fifth of "
                "the calls abandoned after 1-13 polls, every generated server flavour (by-value, RefMut, SharedMut with and without spawn), request buffer "
                "1-4, optional connection cut, plus a trait with a by-value method; every step of the callee body is logged from inside the target; "
                "distinct = distinct event sequences; non-trivial = a mutable call ran while other calls were outstanding",
        "assumptions": ["x_start / x_end are logged by the target object itself, i.e. under whatever lock the server holds while executing"],
        "legs": [
            model("Rtc_MC_seq.cfg", spec="RtcMC.tla", min_states=10000),
            model("Rtc_MC_shared.cfg", spec="RtcMC.tla", min_states=10000),
            model("Rtc_MC_sharedns.cfg", spec="RtcMC.tla", min_states=10000),
            model("Rtc_MC_faulty.cfg", spec="RtcMC.tla", min_states=30000),
            model("Rtc_DevNolock.cfg", spec="RtcMC.tla", expect_violation="C12_MutAtomic"),
            model("Rtc_DevRequeue.cfg", spec="RtcMC.tla", expect_violation="C12_AtMostOnce"),
            dict(XT, kind="trace", name="rtc_local", workload="rtc", n=(200, 3000), opts={"remote": 0}, require={r'"m":"add"': 200, r'"ev":"c_cancel"': 100},
                 nontrivial=[r'"ev":"x_end","m":"add', r'"ev":"c_ret"']),
            dict(XT, kind="trace", name="rtc_remote", workload="rtc", n=(250, 4000), opts={"remote": 1}, require={r'"ep":2,"ev":"c_call"': 300, r'"ev":"x_drop"': 50},
                 nontrivial=[r'"ev":"x_end","m":"add', r'"ep":2,"ev":"c_call"']),
            dict(XT, kind="trace", name="rtc_cut", workload="rtc", n=(80, 1500), opts={"remote": 1, "cut": 1}, require={r'"ev":"fault"': 60}, nontrivial=[r'"ev":"fault"']),
            dict(XT, kind="trace", name="rtc_once", workload="rtc_once", n=(120, 2000), opts={"remote": 1}, require={r'"m":"take"': 100}, nontrivial=[r'"ev":"x_end","m":"take"']),
            dict(XT, kind="trace", name="rtc_once_local", workload="rtc_once", n=(80, 1000), opts={"remote": 0}, require={r'"m":"take"': 60}, nontrivial=[r'"ev":"x_end","m":"take"']),
            # remote functions: RFnMut (read-modify-write closure, sequential calls, some abandoned), RFn (clones, concurrent), RFnOnce
            dict(XT, kind="trace", name="rfn_remote", workload="rfn", n=(240, 3000), opts={"remote": 1}, require={r'"m":"fmut"': 300, r'"m":"fconst"': 200, r'"m":"fonce"': 50, r'"ev":"c_cancel"': 60},
                 nontrivial=[r'"ev":"x_end"', r'"ev":"c_ret"']),
            dict(XT, kind="trace", name="rfn_local", workload="rfn", n=(120, 1500), opts={"remote": 0}, require={r'"m":"fmut"': 150}, nontrivial=[r'"ev":"x_end"', r'"ev":"c_ret"']),
        ],
    },
    "C18": {
        "rule": "seeded I/O channel scenarios: sized and unsized channels of 0 .. 4 x receive_buffer bytes, reading half moved to the other endpoint "
                "(optionally forwarded over a second connection) or writing half moved; writes of 0, 1, chunk-1, chunk, chunk+1, receive_buffer(+k) "
                "bytes, flushes, reads with buffers of 1 .. 4 x chunk and 4096 bytes; endings: shutdown, drop after flush, drop without flush, over-long "
                "write attempt, early shutdown (short stream); optional connection cut; distinct = distinct event sequences; non-trivial = at least "
                "two writes and two reads",
        "assumptions": ["byte i of the stream is a fixed function of i, so every read is compared in place by the harness",
                        "configurations keep max_data_size >= chunk_size on every endpoint (otherwise chmux rejects full-size data messages, loudly)"],
        "legs": [
            model("IoChan_S_none.cfg", spec="IoChan.tla", min_states=500),
            model("IoChan_U_none.cfg", spec="IoChan.tla", min_states=5000),
            model("IoChan_S_notrunc.cfg", spec="IoChan.tla", expect_violation="C18_EofOnlyComplete"),
            model("IoChan_U_notrunc.cfg", spec="IoChan.tla", expect_violation="C18_EofOnlyComplete"),
            model("IoChan_S_overlong.cfg", spec="IoChan.tla", expect_violation="C18_NoOverlong"),
            dict(IT, kind="trace", name="io_all", workload="io", n=(400, 6000), opts={},
                 require={r'"ev":"io_eof"': 150, r'"ev":"io_read_err"': 60, r'"over":true': 20, r'"place":1': 80, r'"place":2': 80, r'"sized":false': 120},
                 nontrivial=[r'(?s)"ev":"io_write".*"ev":"io_write"', r'(?s)"ev":"io_read".*"ev":"io_read"']),
            dict(IT, kind="trace", name="io_cut", workload="io", n=(120, 2000), opts={"cut": 1}, require={r'"ev":"fault"': 100}, nontrivial=[r'"ev":"fault"']),
        ],
    },
    "C19": {
        "rule": "the C12 call histories with hanging methods that only end when their caller abandons them (the server must go on serving), "
                "non-cancellable methods abandoned by their caller (must run to completion), requests whose argument cannot be decoded, calls of a method "
                "only a newer version of the trait knows, replies over the caller's size limit, connection cut; at the end all clients are dropped and the "
                "server must end; distinct = distinct event sequences; non-trivial = a hanging or failing call was followed by a successful one",
        "assumptions": ["hanging methods are always abandoned by their caller (after 2-29 polls)"],
        "legs": [
            model("Rtc_MC_seq.cfg", spec="RtcMC.tla", min_states=10000),
            model("Rtc_MC_shared.cfg", spec="RtcMC.tla", min_states=10000),
            model("Rtc_MC_hangref.cfg", spec="RtcMC.tla", min_states=10000),
            model("Rtc_DevNorace.cfg", spec="RtcMC.tla", expect_violation="C19_Served"),
            dict(XT, kind="trace", name="rtc_local", workload="rtc", n=(200, 3000), opts={"remote": 0}, require={r'"m":"hang': 150, r'"m":"add_nc","polls":\d': 10},
                 nontrivial=[r'"m":"hang', r'"r":"ok"']),
            dict(XT, kind="trace", name="rtc_remote", workload="rtc", n=(250, 4000), opts={"remote": 1}, require={r'"ep":2,"ev":"c_call","k":0,"m":"hang': 40},
                 nontrivial=[r'"m":"hang', r'"r":"ok"']),
            dict(XT, kind="trace", name="rtc_undecodable", workload="rtc", n=(200, 3000), opts={"remote": 1, "undecodable": 1},
                 require={r'"m":"extra"': 40, r'"ep":2,"ev":"c_call","k":1,"m":"picky"': 10}, nontrivial=[r'"m":"(extra|picky)"']),
            dict(XT, kind="trace", name="rtc_cut", workload="rtc", n=(80, 1500), opts={"remote": 1, "cut": 1}, require={r'"ev":"fault"': 60}, nontrivial=[r'"ev":"fault"']),
            # three connections with one client each, two of them fail one after the other: the third client must still be served
            dict(XT, kind="trace", name="rtc_multi_cut", workload="rtc", n=(80, 1200), opts={"remote": 1, "conns": 3, "cut": 1},
                 require={r'"ev":"fault","kind":"cut"': 150, r'"ep":4,"ev":"c_call"': 100}, nontrivial=[r'"ep":4,"ev":"c_call"']),
            # by-value server: hanging by-value method abandoned by its caller, server must end
            dict(XT, kind="trace", name="rtc_once", workload="rtc_once", n=(120, 2000), opts={"remote": 1}, require={r'"m":"take_hang"': 20}, nontrivial=[r'"m":"take']),
            dict(XT, kind="trace", name="rtc_oversize", workload="rtc", n=(60, 600), opts={"remote": 1, "oversize": 1}, require={r'"m":"big"': 60},
                 nontrivial=[r'"m":"big"'], max_rounds=80),
        ],
    },
    "C13": {
        "rule": "operation scripts generated by TLC from RobsGen (random walks over every mutator of every collection type with every parameter over "
                "3 values, length <= 4, subscription point and mode chosen by TLC) executed on the real collections with a real mirror (local and across "
                "a real connection) and a hand-written event consumer; distinct = distinct scripts; non-trivial = at least one event was emitted after "
                "the subscription point",
        "assumptions": ["element type of the hash set compares and hashes by key only (exposes replace vs insert)",
                        "Robs.tla is the reference semantics of the std collections' operations"],
        "legs": [
            model("RobsMC.cfg", spec="RobsMC.tla", min_states=10000),
            model("RobsMC_F5.cfg", spec="RobsMC.tla", expect_violation="MirrorEqualsCollectionAll"),
            model("RobsSub_MC.cfg", spec="RobsSub.tla", min_states=300),
            model("RobsSub_DevEarly.cfg", spec="RobsSub.tla", expect_violation="C13_DownstreamEqual"),
            # concurrent chain: observable -> mirror -> mirrors attached at arbitrary moments while readers hold the first mirror
            dict(kind="trace", name="robs_chain", workload="robs_chain", n=(300, 5000), opts={}, tspec="RobsChainTrace.tla", tcfg="RobsChainTrace.cfg",
                 require={r'"ev":"chain_mirror"': 400, r'"coll":"deque"': 50}, nontrivial=[r'"ev":"chain_sub_done"']),
            dict(RT, kind="custom", fn=legs.gen_replay, name="robs_paths", gen_spec="RobsGen.tla", gen_cfg="RobsGen.cfg", depth=(4, 5),
                 gen_extra=SIM, gen_num=(400, 4000), exclude="retain_mut", limit=(4000, 60000), workload="robs_script",
                 nontrivial=[r'"evs":\[\{'], min_behaviours=1000),
            dict(RT, kind="custom", fn=legs.gen_replay, name="robs_remote", gen_spec="RobsGen.tla", gen_cfg="RobsGen.cfg", depth=(3, 4),
                 gen_extra=SIM, gen_num=(200, 2000), exclude="retain_mut", augment=robs_remote, limit=(300, 5000), workload="robs_script",
                 nontrivial=[r'"evs":\[\{'], min_behaviours=200),
            dict(RT, kind="custom", fn=legs.gen_replay, name="robs_tight", gen_spec="RobsGen.tla", gen_cfg="RobsGen.cfg", depth=(4, 5),
                 gen_extra=SIM, gen_num=(300, 3000), exclude="retain_mut", augment=robs_tight, limit=(1500, 20000), workload="robs_script",
                 nontrivial=[r'"evs":\[\{'], min_behaviours=500),
            dict(RT, kind="custom", fn=legs.gen_replay, name="robs_known", gen_spec="RobsGen.tla", gen_cfg="RobsGen.cfg", depth=(2, 3),
                 gen_extra=SIM, gen_num=(300, 2000), include="retain_mut", limit=(40, 400), workload="robs_script", max_rounds=3,
                 nontrivial=[r'retain_mut'], min_behaviours=5),
        ],
    },
    "C14": {
        "rule": "seeded scenarios per collection type (vec, deque, map, set): a mirror (local or across a real connection) and a hand consumer of a "
                "subscription (snapshot or incremental) while the collection is mutated 6-16 times; cases: event buffer of 1-3 with bursts of mutations "
                "(lag), collection dropped before done, mirror size limit 2-4, connection cut, and plain; every state of the collection and everything "
                "the mirror shows is logged; append-only lists of 5-40 elements with up to 4 subscribers joining at any time and consuming at two paces; "
                "distinct = distinct event sequences; non-trivial = the mirror showed at least one complete view before it finished or failed",
        "assumptions": ["every mutation used here emits exactly one event, so the contents built from the events pass through the collection's states"],
        "legs": [
            model("RobsMirror_MC.cfg", spec="RobsMirror.tla", min_states=80),
            model("RobsMirror_DevNoMarker.cfg", spec="RobsMirror.tla", expect_violation="C14_NoGap"),
            dict(ET, kind="trace", name="robs_err", workload="robs_err", n=(400, 6000), opts={},
                 require={r'"kind":"Lagged"': 60, r'"kind":"Closed"': 60, r'"kind":"MaxSizeExceeded"': 40, r'"kind":"Remote': 40, r'"ev":"e_ev_end"': 60, r'"kind":"InvalidIndex"': 40},
                 nontrivial=[r'"complete":true', r'"ev":"e_detach"']),
            dict(ET, kind="trace", name="robs_list", workload="robs_list", n=(100, 1500), opts={}, require={r'"ev":"l_recv"': 2000, r'"how":"Closed"': 20, r'"how":"none"': 60, r'"distributor_alive":true': 8},
                 nontrivial=[r'"ev":"l_sub"']),
        ],
    },
    "C15": {
        "rule": "seeded watch scenarios: 4-12 increasing updates, up to 4 receivers created by subscribe/clone and transferred over 0-2 real connections "
                "at random moments, observing by changed()/borrow_and_update or wait_for at random paces, sender dropped right after its last send, "
                "optional connection cut; distinct = distinct event sequences; non-trivial = a receiver was transferred while updates were in flight",
        "assumptions": ["values are increasing integers so that order is decidable from the values"],
        "legs": [
            model("Watch_MC.cfg", spec="Watch.tla", min_states=300),
            dict(kind="trace", name="watch_local", workload="watch", n=(150, 3000), opts={"hops": 0}, tspec="WatchTrace.tla", tcfg="WatchTrace.cfg",
                 require={r'"ev":"w_final"': 100}, nontrivial=[r'"ev":"w_obs"']),
            dict(kind="trace", name="watch_hops", workload="watch", n=(200, 3000), opts={"hops": 2}, tspec="WatchTrace.tla", tcfg="WatchTrace.cfg",
                 require={r'"hops":2': 50, r'"ev":"w_final"': 100}, nontrivial=[r'"hops":[12],']),
            dict(kind="trace", name="watch_cut", workload="watch", n=(60, 1000), opts={"hops": 2, "cut": 1}, tspec="WatchTrace.tla", tcfg="WatchTrace.cfg",
                 require={r'"ev":"fault"': 50}, nontrivial=[r'"ev":"fault"']),
        ],
    },
    "C16": {
        "rule": "seeded broadcast scenarios: 6-14 values, one subscriber that keeps up plus up to 3 subscribers (send buffers 1-3, local or moved to a "
                "remote endpoint) joining and leaving at random moments and consuming at random paces, sender dropped at the end, optional connection cut; "
                "distinct = distinct event sequences; non-trivial = at least one lag error was observed",
        "assumptions": ["values are 1,2,3,... so gaps are decidable from the values"],
        "legs": [
            model("Broadcast_MC.cfg", spec="BroadcastMC.tla", min_states=3000),
            dict(kind="trace", name="bcast_local", workload="bcast", n=(150, 3000), opts={"remote": 0}, tspec="BcastTrace.tla", tcfg="BcastTrace.cfg",
                 require={r'"r":"lagged"': 30, r'"r":"closed"': 100}, nontrivial=[r'"r":"lagged"']),
            dict(kind="trace", name="bcast_remote", workload="bcast", n=(200, 3000), opts={"remote": 1}, tspec="BcastTrace.tla", tcfg="BcastTrace.cfg",
                 require={r'"remote":true': 50}, nontrivial=[r'"r":"lagged"']),
            # no subscriber keeps up: bursts make everybody lag, then values are sent with long gaps and must reach everybody (re-admission)
            dict(kind="trace", name="bcast_calm", workload="bcast", n=(150, 2500), opts={"remote": 1, "calm": 1}, tspec="BcastTrace.tla", tcfg="BcastTrace.cfg",
                 require={r'"ev":"bc_calm"': 150, r'"r":"lagged"': 200}, nontrivial=[r'"r":"lagged"']),
            dict(kind="trace", name="bcast_calm_local", workload="bcast", n=(100, 1500), opts={"remote": 0, "calm": 1}, tspec="BcastTrace.tla", tcfg="BcastTrace.cfg",
                 require={r'"ev":"bc_calm"': 100, r'"r":"lagged"': 100}, nontrivial=[r'"r":"lagged"']),
            # two sender clones used from two OS threads at the same time
            dict(kind="trace", name="bcast_threads", workload="bcast_threads", n=(40, 400), opts={}, tspec="BcastTrace.tla", tcfg="BcastTrace.cfg",
                 require={r'"ev":"bt_sub"': 40}, nontrivial=[r'"ev":"bt_sub"']),
            dict(kind="trace", name="bcast_cut", workload="bcast", n=(60, 1000), opts={"remote": 1, "cut": 1}, tspec="BcastTrace.tla", tcfg="BcastTrace.cfg",
                 require={r'"ev":"fault"': 20}, nontrivial=[r'"ev":"fault"']),
        ],
    },
    "C04": {
        "rule": "seeded typed-channel scenarios over a real connection with max_data_size 64/128: items of 0..3x max_data bytes (buffered and streamed "
                "through the helper thread), serialization failing after 1 byte or before the last byte, items over max_item_size, sends cancelled after "
                "1..8 polls, base channel and mpsc with 1-2 senders and local queue 1-4, receiver close, connection cut; distinct = distinct event sequences; "
                "non-trivial = contains a failing or cancelled item followed by a successful one",
        "assumptions": ["payload of item (id,len) is a deterministic byte pattern; equality is checked on the receiver and logged",
                        "streamed (de)serialization threads get a real-time grace period before a hang verdict"],
        "legs": [
            model("ChmuxData_MC_small.cfg", min_states=100000),
            model("ChmuxData_DevF1.cfg", expect_violation="C01_Prefix"),
            # item framing of the base channel: every sensible assignment of fates (ok / fails early / fails late / abandoned before the
            # port message) to four items of mixed shape; the two deviations are the pinned tree's defect F1 and the seeded change C04_m2
            model("RchBase_MC.cfg", spec="RchBaseMC.tla", min_states=2000),
            model("RchBase_DevLoseFirst.cfg", spec="RchBaseMC.tla", expect_violation="C04_Prefix"),
            model("RchBase_DevDropStash.cfg", spec="RchBaseMC.tla", expect_violation="C04_Prefix"),
            dict(TT, kind="trace", name="typed_base", workload="typed_base", n=(250, 4000), opts={}, require={r'"mode":"Cancel': 50, r'"mode":"Poison': 50, r'"mode":"Over"': 20},
                 nontrivial=[r'"res":"(err|cancel)"', r'"r":"item"']),
            dict(TT, kind="trace", name="typed_mpsc", workload="typed_mpsc", n=(250, 4000), opts={}, require={r'"ev":"t_sending"': 500, r'"mode":"Poison': 50},
                 nontrivial=[r'"mode":"Poison', r'"r":"item"']),
            dict(TT, kind="trace", name="typed_base_cut", workload="typed_base", n=(60, 1000), opts={"cut": 1}, require={r'"ev":"fault"': 50}, nontrivial=[r'"ev":"fault"']),
            dict(TT, kind="trace", name="typed_mpsc_cut", workload="typed_mpsc", n=(60, 1000), opts={"cut": 1}, require={r'"ev":"fault"': 50}, nontrivial=[r'"ev":"fault"']),
            # long streamed items, slow deserializer thread, recv abandoned while the chunk queue is full
            dict(TT, kind="trace", name="typed_base_slow", workload="typed_base", n=(80, 800), opts={"variant": 1}, require={r'"ev":"t_recv_cancel"': 100},
                 nontrivial=[r'"ev":"t_recv_cancel"', r'"r":"item"']),
            # send of an item with an embedded channel abandoned between its data and its port message
            dict(TT, kind="trace", name="typed_base_portabort", workload="typed_base", n=(160, 2000), opts={"variant": 2}, require={r'"id":1,"res":"cancel"': 100},
                 nontrivial=[r'"res":"cancel"', r'"r":"item"']),
        ],
    },
    "C20": {
        "rule": "handles: a value with a logging destructor behind a handle (with or without a provider kept by the scenario); copies are cloned, dropped, "
                "cast, sent between three endpoints in both directions along a seeded walk of 5-13 steps and accessed by as_ref / into_inner at the original "
                "and at another type on every endpoint; lazy values: Lazy<Vec<u8>> and LazyBlob of 0, 1, chunk-1, chunk, chunk+1, buffer, buffer+1 .. 3 x buffer "
                "bytes forwarded over 1-3 connections and fetched at the far end, provider dropped in an eighth of the runs, optional cut during the fetch; "
                "distinct = distinct event sequences; non-trivial = a copy came back to the origin and was accessed / a fetch of more than one chunk",
        "assumptions": ["the stored value's destructor logs, so release and double release are visible"],
        "legs": [
            model("Handle_MC.cfg", spec="Handle.tla", min_states=800),
            model("Handle_DevAnywhere.cfg", spec="Handle.tla", expect_violation="C20_Confined"),
            # lazy value fetched through two relaying endpoints with the first connection cut at any moment; the deviation (a relay
            # closes a cancelled message normally, seeded change C20_m2) yields a truncated value
            model("Lazy_MC.cfg", spec="Lazy.tla", min_states=60),
            model("Lazy_DevFinish.cfg", spec="Lazy.tla", expect_violation="C20_NeverTruncated"),
            dict(HT, kind="trace", name="handle", workload="handle", n=(400, 6000), opts={}, require={r'"res":"value"': 150, r'"res":"unknown"': 100, r'"res":"mismatch"': 30, r'"ev":"hd_arrived"': 300},
                 nontrivial=[r'"ep":0,"ev":"hd_arrived"', r'"ev":"hd_res"']),
            dict(HT, kind="trace", name="handle_cut", workload="handle", n=(100, 1500), opts={"cut": 1}, require={r'"ev":"fault"': 35}, nontrivial=[r'"ev":"fault"']),
            dict(HT, kind="trace", name="lazy", workload="lazy", n=(300, 5000), opts={}, require={r'"ok":true': 200, r'"kind":"blob"': 100, r'"hops":3': 50},
                 nontrivial=[r'"ev":"lz_res"']),
            dict(HT, kind="trace", name="lazy_cut", workload="lazy", n=(200, 3000), opts={"cut": 1}, require={r'"ok":false': 40, r'"ev":"fault"': 150}, nontrivial=[r'"ev":"fault"']),
        ],
    },
}
