"""Per-property legs (model configurations, workloads + trace specifications, replay legs)."""

CT = {"tspec": "ChmuxTrace.tla", "tcfg": "ChmuxTrace.cfg"}


def data_leg(name, n, opts=None, require=None, nontrivial=None):
    d = {"kind": "trace", "name": name, "workload": "data", "n": n, "opts": opts or {}, "require": require or {},
         "nontrivial": nontrivial or []}
    d.update(CT)
    return d


def model(cfg, spec="ChmuxData.tla", **kw):
    d = {"kind": "model", "spec": spec, "cfg": cfg}
    d.update(kw)
    return d


CHECKS = {
    "C01": {
        "rule": "seeded chmux scenarios (config pair, message sizes 0..3x max_data, send/try_send/send_chunks/port batches, "
                "cancellation after any poll, random delivery order, H1 deferral); distinct = distinct event sequences; "
                "non-trivial = contains a cancelled send and a chunk-mode receive",
        "assumptions": ["single-threaded schedules (await-to-await atomicity)", "TLC and the Json module are trusted",
                        "payload bytes compared verbatim (frames <= 96 bytes)"],
        "legs": [
            model("ChmuxData_MC_small.cfg", min_states=100000),
            model("ChmuxData_DevF1.cfg", expect_violation="C01_Prefix"),
            data_leg("data_cancel", (120, 3000), {"cancel": 1, "ports": 1},
                     require={r'"ev":"api_cancel"': 20, r'"res":"cancelled"': 3, r'"kind":"try_send"': 20, r'"kind":"send_chunks"': 20,
                              r'"res":"chunks"': 10},
                     nontrivial=[r'"ev":"api_cancel"', r'"res":"chunk"']),
            data_leg("data_nocancel", (60, 1500), {"cancel": 0, "ports": 1, "defer": 2}),
        ],
    },
    "C02": {
        "rule": "same scenarios as C01; wire monitor at every prefix; non-trivial = credit frames were delayed "
                "(a PortCredits frame emitted but delivered after further data frames)",
        "assumptions": ["frames decoded by Wire!Dec (independent of remoc's decoder)"],
        "legs": [
            model("ChmuxData_MC_small.cfg", min_states=100000),
            model("ChmuxData_MC_ports.cfg", min_states=10000),
            data_leg("data_cancel", (120, 3000), {"cancel": 1, "ports": 1}, require={r'"b":\[9,': 50, r'"b":\[8,': 10},
                     nontrivial=[r'"b":\[9,']),
            data_leg("data_big", (40, 1000), {"cancel": 0, "ports": 1, "len_factor": 6, "sends": 8}, nontrivial=[r'"b":\[9,']),
        ],
    },
    "C03": {
        "rule": "same scenarios as C01 plus residual-credit port batches; verdicts at quiescence; non-trivial = contains a "
                "cancelled operation or a port batch",
        "assumptions": ["liveness judged at quiescence of a healthy transport (all frames delivered, receivers waiting)"],
        "legs": [
            model("ChmuxData_MC_small.cfg", min_states=100000),
            model("ChmuxData_MC_ports.cfg", min_states=10000),
            model("ChmuxData_MC_rbuf6.cfg", min_states=1000),
            model("ChmuxData_DevF2.cfg", expect_violation="C03_Conservation"),
            model("ChmuxData_DevF3.cfg", expect_violation="C03_NoEmptyPorts"),
            data_leg("data_cancel", (150, 3000), {"cancel": 1, "ports": 1}, require={r'"ev":"quiescent"': 100, r'"kind":"connect"': 10},
                     nontrivial=[r'"ev":"api_cancel"']),
            data_leg("data_ports", (80, 2000), {"cancel": 1, "ports": 1, "sends": 10}, nontrivial=[r'"kind":"connect"']),
        ],
    },
}
