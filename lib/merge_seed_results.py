#!/usr/bin/env python3
"""Merges the outcomes of individual bin/seedtest runs recorded in work/batch*.log (latest run per seed) into
seeded/RESULTS.json for every seed that the last bin/seedrun did not cover; entries are marked with their source."""
import os, re, json, glob
ROOT = os.path.dirname(os.path.dirname(os.path.abspath(__file__)))
rp = os.path.join(ROOT, "seeded", "RESULTS.json")
res = json.load(open(rp)) if os.path.exists(rp) else {}
found = {}
logs = sorted(glob.glob(os.path.join(ROOT, "work", "batch*.log")), key=os.path.getmtime)
for lg in logs:
    cur = None
    for line in open(lg, errors="replace"):
        m = re.match(r"### (\S+)( vs \S+)?", line)
        if m:
            cur = m.group(1)
            continue
        m = re.match(r"== (\S+) rc=(\d+): (.*)", line)
        if m and cur:
            first = re.search(r"\(([^;]*); leg (\S+) seed", m.group(3))
            entry = {"check": m.group(1), "exit": int(m.group(2)),
                     "verdict": "VIOLATION" if m.group(2) == "1" else ("OK (missed)" if m.group(2) == "0" else "TOOL-ERROR"),
                     "first_reason": first.group(1) if first else "", "leg": first.group(2) if first else "",
                     "source": "individual bin/seedtest run (%s)" % os.path.basename(lg)}
            found.setdefault(cur, {})[m.group(1)] = entry
for seed, by_check in found.items():
    if seed in res:
        continue
    # keep the verdict of the latest run per check
    res[seed] = list(by_check.values())
json.dump(res, open(rp, "w"), indent=1, sort_keys=True)
missing = [os.path.basename(d) for d in sorted(glob.glob(os.path.join(ROOT, "seeded", "*"))) if os.path.isdir(d) and os.path.basename(d) not in res]
print("results for", len(res), "seeds; without a recorded run:", missing)
