#!/usr/bin/env python3
"""Writes seeded/<id>/meta.json for every seeded change from its notes.md, its confirm.log (independent confirmation in a
scratch worktree by bin/confirm_seed) and the detection record below (what bin/seedtest reported)."""
import os, re, json, glob
ROOT = os.path.dirname(os.path.dirname(os.path.abspath(__file__)))
# seed -> (property, check/leg that reports it at the quick tier, what had to be added to the machinery for it)
DETECT = {
    "C01_m1": ("C01", "C01 data legs", ""), "C01_m2": ("C01", "C01 data legs (receive cancellation)", "receive-side cancellation in the data workload"),
    "C02_m1": ("C02", "C02 wire credit ledger", ""), "C02_m2": ("C02", "C02 backpressure / local drop legs", "backpressure leg, receiver credit ledger, local drop leg"),
    "C03_m1": ("C03", "C03 quiescence verdicts", "patch predates fix 7f19c43 (F11) and no longer applies to HEAD; tested against its own base"),
    "C03_m2": ("C03", "C03 block workload", "block workload"),
    "C04_m1": ("C04", "typed_base_slow", "slow deserializer thread + recv abandoned while the chunk queue is full"),
    "C04_m2": ("C04", "typed_base_portabort", "send abandoned between data and port message with < 4 credits left"),
    "C05_m1": ("C05", "", ""), "C05_m2": ("C05", "", ""),
    "C06_m1": ("C06", "C06 fault-class rules", "fault-class rules (kind / direction / early)"), "C06_m2": ("C06", "C06 fault sweep", ""),
    "C07_m1": ("C07", "C07 life legs", ""), "C07_m2": ("C07", "C07 life legs", ""),
    "C08_m1": ("C08", "wire_malformed", "decoder half of the Wire case table added to C08"), "C08_m2": ("C08", "peer_hostile", ""),
    "C09_m1": ("C09", "peer_versions", "local user sending port requests over a port to a version-2 peer"), "C09_m2": ("C09", "wire_vectors", ""),
    "C10_m1": ("C10", "life_exhaust / acc_cancel", "exhausted-ports and cancelled-accept workloads"), "C10_m2": ("C10", "C10 life legs", "liveness rules connStuck / accStuck"),
    "C11_m1": ("C11", "life_override", "override rule"), "C11_m2": ("C11", "typed_mpsc_flood", "sender that keeps its queue non-empty while the receiver closes"),
    "C12_m1": ("C12", "rtc_local / rtc_remote", "add_nc writes before its suspension point"), "C12_m2": ("C12", "rfn_remote", "remote-function workload (RFnMut / RFn / RFnOnce)"),
    "C13_m1": ("C13", "robs_paths / robs_chain", "mirror errors attributed to C13"), "C13_m2": ("C13", "robs_chain", "concurrent mirror chain with readers holding the first mirror"),
    "C14_m1": ("C14", "", ""), "C14_m2": ("C14", "", ""),
    "C15_m1": ("C15", "watch_hops", "concurrent updater"), "C15_m2": ("C15", "watch_hops", "padded values, sender dropped immediately after its last send"),
    "C16_m1": ("C16", "bcast_local", ""), "C16_m2": ("C16", "bcast_local", ""),
    "C17_m1": ("C17", "rw_remote", ""), "C17_m2": ("C17", "rw_local", ""),
    "C18_m1": ("C18", "", ""), "C18_m2": ("C18", "", ""),
    "C19_m1": ("C19", "rtc_once", "hanging by-value method"), "C19_m2": ("C19", "rtc_cut / rtc_multi_cut", "three connections failing one after the other, per-endpoint health"),
    "C20_m1": ("C20", "", ""), "C20_m2": ("C20", "", ""),
    "C02_m3": ("C02", "data_cancel (wire credit ledger)", "second round; caught as built"), "C02_m4": ("C02", "data_cancel (wire credit ledger)", "second round; caught as built"),
    "C06_m3": ("C06", "idle", "second round; caught as built (asymmetric timeouts)"),
    "C06_m4": ("C06", "ret_fault", "second round; dispatcher death while a credit return is parked; panics are now violations of every chmux property"),
    "C07_m3": ("C07", "life_exhaust (shared with C10)", "second round; exhausted-ports leg and the stuck-connect rule added to C07"),
    "C07_m4": ("C07", "acc_cancel (shared with C10)", "second round; cancelled-accept leg and the stuck-request rule added to C07"),
    "C10_m3": ("C10", "life_ldrop (shared with C07)", "second round; listener-drop leg added to C10"), "C10_m4": ("C10", "life", "second round; caught as built"),
    "C16_m3": ("C16", "bcast_threads", "second round; two sender clones on two OS threads, the value's Clone parks the first sender"),
    "C16_m4": ("C16", "bcast_calm", "second round; scenarios without a subscriber that keeps up, calm phase after everybody lagged"),
    "C17_m3": ("C17", "rw_local", "second round; caught as built"),
    "C17_m4": ("C17", "rw_cut_commit", "second round; connection cut by the remote writer right after a confirmed commit"),
    "C01_m3": ("C01", "data_cancel", "third round; caught as built"), "C01_m4": ("C01", "data_cancel", "third round; caught as built"),
    "C03_m3": ("C03", "data_empty", "third round; many zero-length messages through a small window"),
    "C03_m4": ("C03", "wake", "third round; a send waiting for credit is abandoned, another waits, a single credit return arrives"),
    "C04_m3": ("C04", "typed_base", "third round; caught as built"), "C04_m4": ("C04", "typed_base", "third round; caught as built"),
    "C11_m3": ("C11", "life_data", "third round; caught as built (reverse of the else-branch of fix a0a494e)"),
    "C11_m4": ("C11", "close_retry", "third round; first close() abandoned under back-pressure, rule: a completed close() must have put a ReceiveClose on the wire"),
    "C12_m3": ("C12", "rtc_local / rtc_remote", "third round; trait method with a default body that the target overrides"),
    "C12_m4": ("C12", "rtc_cut", "third round; caught as built"),
    "C13_m3": ("C13", "robs_paths", "third round; caught as built"),
    "C13_m4": ("C13", "robs_tight", "third round; mirror size limit equal to the largest size the collection reaches (from RobsGen)"),
    "F16_prefix": ("C09", "C09 stream_frames; C05 wiring", "reverse of fix e06cc2e"),
    "X08_framecap": ("C08", "stream_hostile", "own mutant: receive-side frame length cap of Connect::io removed"),
    "F1_prefix": ("C01", "C01 data legs; C04 typed_base", "reverse of fix a8ebdc3"), "F2_prefix": ("C03", "C03", "reverse of fix 4668553"),
    "F3_prefix": ("C03", "C03", "reverse of fix 530c977"), "F4_prefix": ("C17", "C17 rw_local / rw_remote", "reverse of fix 7c0a1ff"),
    "F10_prefix": ("C11", "C11 life_override", "reverse of fix a0a494e"), "F11_prefix": ("C03", "C03 ret_cancel", "reverse of fix 7f19c43"),
    "F12_prefix": ("C13", "C13 robs_chain / robs_paths (subscription after done)", "reverse of fix 7e51378"),
    "F14_prefix": ("C18", "C18 io_all; C05 wiring", "reverse of fix c9668fc"),
}
RESULTS = {}
rp = os.path.join(ROOT, "seeded", "RESULTS.json")
if os.path.exists(rp):
    RESULTS = json.load(open(rp))

def section(text, title_re):
    m = re.search(r"^#+\s*(%s)[^\n]*\n(.*?)(?=^#+\s|\Z)" % title_re, text, re.S | re.M | re.I)
    return re.sub(r"\s+", " ", m.group(2)).strip()[:900] if m else ""

def main():
  for d in sorted(glob.glob(os.path.join(ROOT, "seeded", "*"))):
      if not os.path.isdir(d):
          continue
      name = os.path.basename(d)
      prop, leg, added = DETECT.get(name, (name.split("_")[0], "", ""))
      notes = open(os.path.join(d, "notes.md")).read() if os.path.exists(os.path.join(d, "notes.md")) else ""
      title = re.sub(r"^#+\s*", "", notes.split("\n")[0]).strip() if notes else ""
      conf = {}
      cl = os.path.join(d, "confirm.log")
      if os.path.exists(cl):
          t = open(cl).read()
          parts = re.split(r"^== ", t, flags=re.M)
          for p in parts:
              if p.startswith("demo WITHOUT"):
                  conf["demo_without_change"] = "passes" if re.search(r"test result: ok\. [1-9]", p) and "FAILED" not in p else "see confirm.log"
              elif p.startswith("demo WITH"):
                  conf["demo_with_change"] = "fails" if ("FAILED" in p or "failed" in p) else "see confirm.log"
              elif p.startswith("suite WITH"):
                  conf["suite_with_change"] = "141 passed, 20 doc tests passed" if "141 passed; 0 failed" in p and "20 passed; 0 failed" in p else "see confirm.log"
          if "PATCH DOES NOT APPLY" in t:
              conf["note"] = "patch does not apply to the current HEAD (written against an earlier base)"
      meta = {
          "id": name,
          "property": prop,
          "origin": "reverse of a fix commit found by this framework" if name.startswith("F") else "fresh sub-agent given only the property text and a scratch worktree",
          "what": title or added,
          "needs_to_manifest": section(notes, r"What is needed|What it needs|Needed") if notes else added,
          "ran": ["bin/confirm_seed seeded/%s  (scratch worktree under /tmp: demo without / with the change, unedited suite with the change)" % name,
                  "bin/seedtest seeded/%s/patch.diff %s  (git apply in /repo, bin/check %s --tier quick, git reset --hard)" % (name, prop, prop)],
          "independent_confirmation": conf,
          "detected_by": leg,
          "machinery_added_for_it": added,
          "seedtest_result": RESULTS.get(name, ""),
      }
      json.dump(meta, open(os.path.join(d, "meta.json"), "w"), indent=1)
  print("meta.json written for", len(glob.glob(os.path.join(ROOT, "seeded", "*", "meta.json"))), "seeds")


if __name__ == "__main__":
    main()
