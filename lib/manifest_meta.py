HOOKS = {
    "guard": "remoc_verif",
    "enable": "rustflags `--cfg remoc_verif` in /verif/harness/.cargo/config.toml (the harness has a path dependency on /repo/remoc)",
    "baseline_off_cmd": "cd /repo && cargo test --workspace --no-fail-fast --offline",
    "source_commits": ["45d4eae", "d5addfd", "8a1cdf9", "25f794a", "386768c", "28434e2"],
    "add_only": False,
}
ENGINES = [
    {"name": "tlc", "path": "/opt/veriftools/tla/tla2tools.jar", "serves_properties": ["C%02d" % i for i in range(1, 21)], "kind_free_text": "TLC model checker: exhaustive runs of spec/*_MC*.cfg and trace validation of recorded executions (spec/*Trace.tla)"},
    {"name": "harness", "path": "/verif/harness", "serves_properties": ["C%02d" % i for i in range(1, 21)], "kind_free_text": "deterministic Rust harness driving real remoc objects over a harness-owned transport, recording ndjson traces; replays TLC-generated behaviours"},
    {"name": "apalache", "path": "/opt/veriftools/apalache", "serves_properties": ["C02"], "kind_free_text": "Apalache symbolic model checker: credit conservation as an inductive invariant for unbounded buffer sizes (spec/apalache/Credit.tla)"},
]
NOTES = ("Model-based verification with explicit TLA+ specifications (spec/), bound to the implementation by trace validation and "
         "specification-to-implementation replay. hooks.add_only is false only because remoc/Cargo.toml's check-cfg list got one more entry; "
         "all source hooks are added lines under #[cfg(remoc_verif)].")
NOT_APPLICABLE = {}

_chmux_note = ("Bounds: exhaustive TLC on small constants (see spec/*.cfg); implementation explored by seeded single-threaded schedules "
               "(await-to-await atomicity) with cancellation and delivery perturbation. Trusted: TLC, the Json community module, the harness "
               "transport and tracer, hook placement (cfg remoc_verif), Wire.tla as the statement of the wire format.")
META = {
    "C01": {"technique": "TLA+ model (ChmuxData) checked exhaustively with TLC + TLC trace validation of recorded executions (ChmuxTrace)",
            "text": "TLC explores every interleaving, cancellation point and delivery order of the port data path for small constants and checks "
                    "prefix/exactly-once/liveness; every recorded execution of the real code is checked by TLC against the same formulas at every step.",
            "note": _chmux_note},
    "C02": {"technique": "TLA+ model (ChmuxData) checked with TLC + credit conservation as an inductive invariant for every buffer size checked with Apalache (spec/apalache/Credit.tla) + TLC trace validation of raw wire frames decoded by Wire.tla",
            "text": "Credit bound, chunk bound and grant<=consumed are invariants of the exhaustive model and are re-evaluated by TLC at every prefix "
                    "of every recorded wire trace (frames decoded by the independent Wire!Dec).",
            "note": _chmux_note},
    "C03": {"technique": "TLA+ model with fairness (ChmuxData, liveness under WF) + TLC trace validation with verdicts at quiescence",
            "text": "Liveness and credit conservation are checked by TLC on the model (including non-multiple-of-4 buffers); on the real code a pending "
                    "operation at quiescence, a pool/ledger mismatch or progress-free frames are violations.",
            "note": _chmux_note},
    "C05": {"technique": "TLA+ model of the data message + port-request batch matched by id (Wiring.tla, all serialization orders, rejections and loss) + TLC trace validation of wiring scenarios in which every channel carries its own id (WiringTrace)",
            "text": "TLC checks that matching requests to halves by id connects every half to its own counterpart for all orders in which sender and receiver meet the halves and all subsets of "
                    "rejected requests, and that an unconnected half fails at both ends (matching by position is found to miswire); on the real code parcels with halves of every channel type at "
                    "several nesting positions travel over 1-3 connections, are used once, and both ends log the channel id that arrived: another id, a hang, or an error without exhaustion or cut is a violation.",
            "note": "Bounds: 3 halves in the model; real code: up to 6 halves per parcel, 1-3 parcels, 1-3 hops, port limits 3/5/64. Trusted: TLC, harness tracer, ids carried in messages."},
    "C06": {"technique": "TLA+ timed fail-stop model (ChmuxFault) + fault enumeration on the real code with TLC trace validation",
            "text": "TLC checks on a clocked model that every fault kind makes both dispatchers fail within a bound and that a healthy idle "
                    "connection is never torn down; the real code is run once per fault kind x direction x frame index under a virtual clock "
                    "and every recorded run is validated (nothing pending after the timeout, later calls fail, prefix preserved).",
            "note": _chmux_note},
    "C07": {"technique": "TLA+ lifecycle model (ChmuxLife, safety + liveness) + TLC trace validation of lifecycle scenarios",
            "text": "TLC explores every drop order / helper-task schedule of one open-request lifecycle incl. Goodbye exchange; recorded teardown "
                    "scenarios must end with both dispatchers Ok, all port numbers reclaimed and no task left.",
            "note": _chmux_note},
    "C08": {"technique": "TLA+ verdict function (ChmuxPeer) explored with TLC + scripted-peer conformance (random grammar and TLC-generated behaviours replayed into a real endpoint)",
            "text": "The receive path is specified as a total function frame x state -> verdict; TLC explores all frame sequences over a finite alphabet; "
                    "a real endpoint is fed hostile frame sequences (seeded grammar and every TLC-generated behaviour) and must reach exactly the specified verdict, never panic, "
                    "never exceed its buffer, and fail all local calls after a protocol error.",
            "note": _chmux_note},
    "C09": {"technique": "TLA+ statement of the wire format (Wire.tla); TLC-generated complete case table replayed into remoc's codec + TLC trace validation of emitted frames for v2/v3 peers",
            "text": "Wire.tla states the byte layout independently of the code; TLC enumerates the case table and every vector is encoded and decoded by remoc's codec; "
                    "all frames emitted in recorded runs are decoded by Wire!Dec and checked for canonical form and version negotiation.",
            "note": _chmux_note},
    "C10": {"technique": "TLA+ lifecycle model (ChmuxLife) + TLC trace validation of connect storms",
            "text": "Exactly-once resolution, pairing and queue bound are invariants of the model; every recorded connect/accept/reject history is "
                    "checked against the wire-level request state machine and the delivered frames.",
            "note": _chmux_note},
    "C11": {"technique": "TLA+ lifecycle model (ChmuxLife with close) + TLC trace validation with close/drop at random positions",
            "text": "Close/finish notification order and classification are checked by TLC on the model and on every recorded execution "
                    "(end-of-stream only after all committed sends, sends fail once the close/drop is known, right error class).",
            "note": _chmux_note},
    "C17": {"technique": "TLA+ model of owner task, per-endpoint cache under a fair local lock, fetch and monitor tasks (RwLock.tla, safety + liveness, deadlock check) + TLC trace validation of timed lock histories",
            "text": "TLC checks exclusion, freshness and deadlock freedom over all interleavings of 2-3 readers and 2 writers (and finds the pinned tree's deadlock when the repair is disabled); "
                    "recorded histories of the real lock on two endpoints are checked step by step for overlap, stale reads, lost writes and requests that never complete.",
            "note": "Bounds: 3 readers x 2 writers in the model; real code on single-threaded seeded schedules with H1 deferral of remoc's internal tasks. Trusted: TLC, harness tracer, guard logging order."},
    "C12": {"technique": "TLA+ model of request queue, serve loop, lock and dispatcher per server flavour (Rtc.tla, safety) + TLC trace validation of call histories with the callee's steps logged from inside the target (RtcTrace)",
            "text": "TLC checks at-most-once execution, own-result, atomicity of mutable methods and absence of lost updates over all interleavings of four calls for the sequential and the shared "
                    "flavours (and finds the violations when the lock or the once-only dispatch is removed); recorded histories of the generated servers (by-value, RefMut, SharedMut spawn/no-spawn) "
                    "with local and remote clients are replayed by TLC against the model's target state: every value an execution reads, writes and returns must be the model's.",
            "note": "Bounds: 4 calls, queue 2 in the model; real code on single-threaded seeded schedules with H1 deferral, 2-4 clients x 2-4 calls. Trusted: TLC, harness tracer, logging inside the target object."},
    "C18": {"technique": "TLA+ model of the I/O channel (IoChan.tla: clamped writes, pending chunk, shutdown verification / announcement, end-of-data verification; safety + termination under fairness) + TLC trace validation of write/read histories (IoTrace)",
            "text": "TLC checks prefix, end-of-file-only-when-complete, over-long-write refusal, shutdown verification and reader termination for sized and unsized mode over all write/read partitions "
                    "of a small stream (and finds the violations when end-of-data is not verified or writes are not clamped); recorded histories of real channels with either half moved to another "
                    "endpoint are checked step by step: every read against the byte pattern, every result against the model's counters.",
            "note": "Bounds: size 5, chunk 3 in the model; real code: 0..2400 bytes, chunk 16-256, receive buffer 64-4096. Trusted: TLC, harness tracer, in-place pattern comparison."},
    "C19": {"technique": "TLA+ model with fairness (Rtc.tla liveness: every non-abandoned call completes, hanging calls are dropped) + TLC trace validation of histories with hanging, non-cancellable, undecodable, unknown and oversized calls",
            "text": "TLC checks under weak fairness that an abandoned hanging call never wedges the serve loop and that non-cancellable executions are never dropped (and finds the wedge when the "
                    "cancellation race is removed); on the real code a call that never completes, a dropped non-cancellable execution, an unrelated call failing after an item-specific failure, "
                    "or a server that does not end after its clients are gone is a violation.",
            "note": "Known finding F6: a reply over the caller's size limit ends the whole serve loop (pinned by the repository's own test rtc::errors::max_item_size_exceeded, so it cannot be repaired without editing the suite)."},
    "C13": {"technique": "TLA+ reference semantics of the collections (Robs.tla): TLC proves mirror = collection for every bounded state x operation, generates operation scripts that are replayed on the real collections, and validates the recorded runs (RobsTrace)",
            "text": "The model theorem (folding the specified events gives the new contents) is checked exhaustively over 11 782 state/operation pairs; TLC-generated scripts are executed on the real "
                    "observable, a real mirror (local and remote) and a hand-written consumer, and TLC checks that all three equal the reference contents after every operation.",
            "note": "Bounds: 3 values, length <= 4, scripts of depth 4-5 sampled by TLC simulation. Trusted: TLC, harness stepper, JSON projection of contents and events."},
    "C14": {"technique": "TLA+ model of a bounded event buffer with shedding, lag marker, early drop and size limit (RobsMirror.tla, safety + eventual verdict) + TLC trace validation of mirror views and event streams against the recorded history of the collection (RobsErrTrace, built on Robs.tla)",
            "text": "TLC checks that a mirror only shows states of the collection's history, applies events without gaps, reports success only with the final contents and always ends with "
                    "the contents or an error (removing the lag marker is found); on the real code every view of a mirror and every fold of the hand-consumed events must be a state of the logged "
                    "history in order, an error must be of the kind the scenario explains and sticky, detach must return a state of the history; list subscribers must get 1..n exactly once in order.",
            "note": "Bounds: 5 operations, buffer 2 in the model; real code: 6-16 mutations, buffers 1-3 / 256, size limits 2-4, lists up to 40 elements. Trusted: TLC, Robs.tla event semantics, harness tracer."},
    "C15": {"technique": "TLA+ model of the watch forwarding chain (Watch.tla, safety + liveness under fairness) + TLC trace validation of observation sequences (WatchTrace)",
            "text": "TLC checks monotonicity and convergence to the last value over all interleavings of sends, forwarding and delivery on a 2-hop chain incl. sender drop after the last send; "
                    "recorded observation sequences of real receivers (local, 1-2 hops, transferred mid-update) are checked for never going backwards and ending on the last value.",
            "note": "Bounds: 2 hops x 4 values in the model; real code on seeded schedules. Trusted: TLC, harness."},
    "C16": {"technique": "TLA+ model of broadcast fan-out and lag task (Broadcast.tla) + TLC trace validation of per-subscriber result sequences (BcastTrace)",
            "text": "TLC checks the gap-marker, keep-up and never-blocked invariants over all interleavings of sends, lag-task steps and receives for 3 subscribers; "
                    "recorded Ok/Lagged/Closed sequences of real local and remote subscribers are checked with the same formulas.",
            "note": "Bounds: 3 subscribers, capacities 1-2, 5 values in the model. Trusted: TLC, harness."},
    "C04": {"technique": "TLA+ models of the port data path (ChmuxData) and of the item framing with restart logic (RchBase: data message, port message, abort at every point) checked exhaustively with TLC + TLC trace validation of typed-channel histories (TypedTrace)",
            "text": "The port-message model is checked exhaustively with cancellation at every step (an aborted streamed item is an aborted chunked message); recorded histories of base and mpsc channels "
                    "with failing, oversized and cancelled items are checked by TLC for per-sender gap-free ordered prefix delivery, equality with the originals and suffix-only loss.",
            "note": "Bounds: see ChmuxData configs; real code with max_data 64/128 so that items straddle the buffered/streamed boundary. Trusted: TLC, harness, deterministic payload function."},
    "C20": {"technique": "TLA+ model of handle copies, per-connection storage, attach-on-return, take and release (Handle.tla, safety + eventual release) + TLC trace validation of handle walks and lazy fetches (HandleTrace)",
            "text": "TLC checks over all walks of three copies across three endpoints that a value is only ever obtained on the origin at its original type and is eventually released when no copy "
                    "or no provider is left (attaching on any endpoint is found to break confinement); on the real code every access result along seeded walks is checked against the model's state "
                    "(origin, type, taken, released), the destructor must run exactly once and by the end; fetched lazy values and blobs must equal what was provided or fail for a reason present in the scenario.",
            "note": "Bounds: 3 copies x 3 endpoints in the model; real code: walks of 5-13 steps, lazy values up to about 4.5 kB over 1-3 hops. Trusted: TLC, harness tracer, logging destructor."},
}
