#!/usr/bin/env python3
"""Regenerates MANIFEST.json from lib/registry.py and lib/manifest_meta.py."""
import json, os, sys
ROOT = os.path.normpath(os.path.join(os.path.dirname(os.path.abspath(__file__)), ".."))
sys.path.insert(0, os.path.join(ROOT, "lib"))
import registry, manifest_meta as mm

ids = [json.loads(l)["id"] for l in open(os.path.join(ROOT, "properties.jsonl"))]
checks = []
for i in ids:
    if i not in registry.CHECKS or i in mm.NOT_APPLICABLE:
        continue
    meta = mm.META[i]
    checks.append({
        "property_id": i,
        "quick_cmd": "bin/check %s --tier quick" % i,
        "thorough_cmd": "bin/check %s --tier thorough" % i,
        "evidence_file": "/verif/evidence/%s.json" % i,
        "replay_cmd_template": "bin/check %s --replay {path}" % i,
        "engine": meta.get("engine", "tlc+harness"),
        "level_claimed": {"category": "model_checking", "text": meta["text"], "design_ref": meta.get("design_ref", "DESIGN.md section 6, " + i)},
        "level_note": meta["note"],
        "technique": meta["technique"],
    })
na = [{"property_id": i, "reason": mm.NOT_APPLICABLE.get(i, "check not built yet (work in progress)")} for i in ids if i not in [c["property_id"] for c in checks]]
m = {
    "version": 1,
    "setup_cmd": "cd /verif/harness && CARGO_NET_OFFLINE=true cargo build --release --offline --bins",
    "hooks": mm.HOOKS,
    "engines": mm.ENGINES,
    "checks": checks,
    "notes": mm.NOTES,
    "not_applicable": na,
}
json.dump(m, open(os.path.join(ROOT, "MANIFEST.json"), "w"), indent=1)
print("checks:", [c["property_id"] for c in checks], "not_applicable:", [n["property_id"] for n in na])
