"""Engine of bin/check (see DESIGN.md section 2)."""
import hashlib, json, os, re, shutil, subprocess, sys, time

ROOT = os.path.normpath(os.path.join(os.path.dirname(os.path.abspath(__file__)), ".."))
SPEC = os.path.join(ROOT, "spec")
HARNESS = os.path.join(ROOT, "harness")
DRIVE = os.path.join(HARNESS, "target", "release", "drive")
REPLAY = os.path.join(HARNESS, "target", "release", "replay")
TLA_JAR = "/opt/veriftools/tla/tla2tools.jar:/opt/veriftools/tla/CommunityModules-deps.jar"


class ToolError(Exception):
    pass


def log(msg):
    print(msg, flush=True)


def run(cmd, timeout, env=None, cwd=None, stdout_path=None):
    e = dict(os.environ)
    if env:
        e.update(env)
    t0 = time.time()
    try:
        if stdout_path:
            with open(stdout_path, "w") as f:
                p = subprocess.run(cmd, cwd=cwd, env=e, stdout=f, stderr=subprocess.STDOUT, timeout=timeout)
            out = open(stdout_path, errors="replace").read()
        else:
            p = subprocess.run(cmd, cwd=cwd, env=e, stdout=subprocess.PIPE, stderr=subprocess.STDOUT, timeout=timeout)
            out = p.stdout.decode(errors="replace")
    except subprocess.TimeoutExpired:
        raise ToolError("timeout after %ss: %s" % (timeout, " ".join(cmd)[:200]))
    return p.returncode, out, time.time() - t0


# ---------------------------------------------------------------------------------------------- build
def build_harness():
    """Rebuilds the harness (path dependency on /repo, so /repo's working tree is recompiled)."""
    env = {"CARGO_NET_OFFLINE": "true"}
    rc, out, dt = run(["cargo", "build", "--release", "--offline", "--bins"], 1800, env=env, cwd=HARNESS)
    if rc != 0:
        sys.stdout.write(out[-4000:])
        raise ToolError("harness build failed (does /repo still compile with --cfg remoc_verif?)")
    return dt


# ---------------------------------------------------------------------------------------------- TLC
def tlc(spec, cfg, workdir, workers=8, timeout=900, env=None, extra=None, heap="6g", dfs=False):
    """Runs TLC; returns (rc, output, seconds)."""
    meta = os.path.join(workdir, "tlc_" + os.path.basename(cfg).replace(".cfg", ""))
    shutil.rmtree(meta, ignore_errors=True)
    os.makedirs(meta, exist_ok=True)
    jopts = "-Xss1g"
    if dfs:
        jopts += " -Dtlc2.tool.queue.IStateQueue=StateDeque"
    cmd = ["java", "-XX:+UseParallelGC", "-Xmx" + heap, "-Xss1g"]
    if dfs:
        cmd.append("-Dtlc2.tool.queue.IStateQueue=StateDeque")
    cmd += ["-cp", TLA_JAR, "tlc2.TLC", "-workers", str(workers), "-metadir", meta, "-cleanup", "-noGenerateSpecTE",
            "-config", cfg, spec]
    if extra:
        cmd += extra
    e = {"JAVA_TOOL_OPTIONS": ""}
    if env:
        e.update(env)
    rc, out, dt = run(cmd, timeout, env=e, cwd=SPEC, stdout_path=os.path.join(meta, "out.txt"))
    shutil.rmtree(os.path.join(meta, "states"), ignore_errors=True)
    return rc, out, dt


def tlc_counts(out):
    m = re.findall(r"(\d+) states generated, (\d+) distinct states found", out)
    if not m:
        return 0, 0
    gen, dist = m[-1]
    return int(dist), int(gen)


def model_check(leg, workdir):
    """Exhaustive TLC run of one configuration. Returns dict with states/transitions; raises on tool error."""
    rc, out, dt = tlc(leg["spec"], leg["cfg"], workdir, workers=leg.get("workers", 8), timeout=leg.get("timeout", 900),
                      extra=leg.get("extra"))
    states, gen = tlc_counts(out)
    res = {"kind": "model", "spec": leg["spec"], "cfg": leg["cfg"], "states": states, "transitions": gen, "wall_s": round(dt, 1)}
    viol = re.search(r"Error: Invariant (\S+) is violated", out) or re.search(r"Error: Temporal propert(y|ies) [^\n]*violated", out) \
        or re.search(r"Error: Deadlock reached", out) or re.search(r"Error: Action property (\S+)", out)
    expect = leg.get("expect_violation")
    if viol:
        res["violated"] = viol.group(0)
        if expect and expect in viol.group(0):
            res["expected_violation_found"] = True
            return res
        res["error"] = True
        res["tail"] = out[-3000:]
        return res
    if expect:
        res["error"] = True
        res["tail"] = "expected violation %s was not found (stale deviation or vacuous model)" % expect
        return res
    if "Model checking completed. No error has been found" not in out:
        raise ToolError("TLC did not complete on %s/%s:\n%s" % (leg["spec"], leg["cfg"], out[-2000:]))
    if states < leg.get("min_states", 2):
        raise ToolError("vacuous model run: %d states for %s" % (states, leg["cfg"]))
    return res


# ---------------------------------------------------------------------------------------------- traces
def split_scenarios(path):
    """Splits an ndjson trace file into scenarios (each starts with a reset event)."""
    scen, cur = [], []
    with open(path) as f:
        for line in f:
            if line.startswith('{"cfg"') and '"ev":"reset"' in line or '"ev":"reset"' in line:
                if cur:
                    scen.append(cur)
                cur = []
            cur.append(line)
    if cur:
        scen.append(cur)
    return scen


def drive(workload, seed, n, out, opts, timeout=600):
    cmd = [DRIVE, workload, "--seed", str(seed), "--n", str(n), "--out", out] + ["%s=%s" % kv for kv in sorted(opts.items())]
    rc, o, dt = run(cmd, timeout)
    if rc != 0:
        raise ToolError("drive %s failed rc=%s: %s" % (workload, rc, o[-2000:]))
    return dt


def validate_trace(path, tspec, tcfg, prop, workdir, timeout=900, dfs=True):
    """Validates one ndjson file. Returns (violations:list of dict(line, reason, property), consumed:bool, states)."""
    env = {"TRACE": path, "CHECK": prop}
    rc, out, dt = tlc(tspec, tcfg, workdir, workers=1, timeout=timeout, env=env, heap="4g", dfs=dfs)
    viols = []
    seen = set()
    for m in re.finditer(r'"VIOLATION property=(\S+) line=(\d+) reason=([^"]*)"', out):
        key = (m.group(1), int(m.group(2)))
        if key in seen:
            continue
        seen.add(key)
        viols.append({"property": m.group(1), "line": int(m.group(2)), "reason": m.group(3)})
    inv = re.search(r"Error: Invariant (\S+) is violated", out)
    states, gen = tlc_counts(out)
    consumed = "TRACE NOT CONSUMED" not in out and "No error has been found" in out
    if not viols and inv:
        viols.append({"property": prop, "line": states, "reason": "invariant %s violated" % inv.group(1)})
    if not consumed and not viols:
        if "Error:" in out:
            raise ToolError("trace validation failed without a verdict:\n" + out[-3000:])
    return viols, consumed, states, dt, out


def trace_leg(leg, prop, tier, seed, workdir, findings, report):
    """Drive + validate. Appends to report; returns list of violations (each with replay path)."""
    n = leg["n"][0 if tier == "quick" else 1]
    name = leg["name"]
    tr = os.path.join(workdir, "%s.ndjson" % name)
    opts = dict(leg.get("opts", {}))
    if leg.get("prerecorded"):
        tr = leg["prerecorded"]
        dt_drive = 0.0
    else:
        dt_drive = drive(leg["workload"], seed, n, tr, opts, timeout=leg.get("drive_timeout", 900))
    scen = split_scenarios(tr)
    if len(scen) < n:
        raise ToolError("workload %s produced %d of %d scenarios" % (name, len(scen), n))
    text = "".join("".join(s) for s in scen)
    # non-vacuity: the traces must exercise what the property quantifies over
    vacuous = None
    for pat, minimum in leg.get("require", {}).items():
        c = len(re.findall(pat, text))
        if c < minimum and vacuous is None:
            # decided after validation: code that breaks the property may also starve a pattern (e.g. no "Closed" is ever
            # reported); a violation found in the same traces takes precedence over the vacuity verdict
            vacuous = "vacuous traces for %s/%s: pattern %r seen %d times (< %d)" % (prop, name, pat, c, minimum)
    marks = leg.get("nontrivial", [])
    distinct = set()
    for s in scen:
        body = "".join(l for l in s if '"ev":"reset"' not in l)
        if all(re.search(m, body) for m in marks):
            distinct.add(hashlib.sha1(body.encode()).hexdigest())
    events = sum(len(s) for s in scen)
    viols_out = []
    remaining = scen
    validated = 0
    states_total = 0
    t_val = 0.0
    rounds = 0
    while remaining and rounds < leg.get("max_rounds", 6):
        rounds += 1
        part = os.path.join(workdir, "%s.part%d.ndjson" % (name, rounds))
        with open(part, "w") as f:
            for s in remaining:
                f.writelines(s)
        viols, consumed, states, dt, out = validate_trace(part, leg["tspec"], leg["tcfg"], prop, workdir,
                                                          timeout=leg.get("timeout", 900), dfs=leg.get("dfs", True))
        t_val += dt
        states_total += states
        if not viols:
            if not consumed:
                raise ToolError("trace not consumed and no violation reported for %s/%s:\n%s" % (prop, name, out[-1500:]))
            validated += len(remaining)
            remaining = []
            break
        v = viols[0]
        # locate the scenario containing the violating line
        acc = 0
        idx = 0
        for i, s in enumerate(remaining):
            if acc + len(s) >= v["line"]:
                idx = i
                break
            acc += len(s)
        bad = remaining[idx]
        validated += idx
        sseed = re.search(r'"seed":(\d+)', bad[0])
        sseed = sseed.group(1) if sseed else "x"
        rdir = os.path.join(ROOT, "evidence", "replay")
        os.makedirs(rdir, exist_ok=True)
        rpath = os.path.join(rdir, "%s_%s_%s.ndjson" % (prop, name, sseed))
        with open(rpath, "w") as f:
            f.writelines(bad)
        v.update({"leg": name, "seed": sseed, "replay": rpath, "line_in_scenario": v["line"] - acc})
        viols_out.append(v)
        remaining = remaining[idx + 1:]
    if vacuous and not viols_out:
        raise ToolError(vacuous)
    report["legs"].append({"kind": "trace", "name": name, "workload": leg["workload"], "opts": opts, "scenarios": len(scen),
                           "events": events, "validated": validated, "distinct_nontrivial": len(distinct),
                           "monitor_states": states_total, "drive_s": round(dt_drive, 2), "validate_s": round(t_val, 1),
                           "violations": len(viols_out),
                           "sample": [json.loads(l) for l in scen[0][:12]]})
    return viols_out


# ---------------------------------------------------------------------------------------------- findings
def load_findings():
    p = os.path.join(ROOT, "KNOWN_FINDINGS.json")
    if not os.path.exists(p):
        return []
    return json.load(open(p)).get("findings", [])


def match_finding(v, prop, findings):
    for f in findings:
        if f.get("status") != "known" or f.get("property") != prop:
            continue
        sig = f.get("signature", {})
        if all(str(sig[k]) in str(v.get(k, "")) for k in sig):
            return f
    return None


# ---------------------------------------------------------------------------------------------- main
def main():
    import registry
    args = sys.argv[1:]
    if not args:
        print(__doc__)
        sys.exit(2)
    prop = args[0]
    tier = os.environ.get("VERIF_TIER", "quick")
    replay = None
    i = 1
    while i < len(args):
        if args[i] == "--tier":
            tier = args[i + 1]
            i += 2
        elif args[i] == "--replay":
            replay = args[i + 1]
            i += 2
        else:
            print("unknown argument", args[i])
            sys.exit(2)
    seed = int(os.environ.get("VERIF_SEED", "1"))
    if prop not in registry.CHECKS:
        print("no check registered for", prop)
        sys.exit(2)
    chk = registry.CHECKS[prop]
    workdir = os.path.join(ROOT, "work", prop)
    shutil.rmtree(workdir, ignore_errors=True)
    os.makedirs(workdir, exist_ok=True)
    t0 = time.time()
    findings = load_findings()
    report = {"legs": []}
    violations = []
    known_seen = []
    try:
        if replay:
            leg = [l for l in chk["legs"] if l["kind"] == "trace"][0]
            viols, consumed, states, dt, out = validate_trace(os.path.abspath(replay), leg["tspec"], leg["tcfg"], prop, workdir)
            for v in viols:
                print("VIOLATION property=%s replay=%s  (%s at line %s)" % (v["property"], replay, v["reason"], v["line"]))
            sys.exit(1 if [v for v in viols if v["property"] == prop] else 0)
        bt = build_harness()
        report["build_s"] = round(bt, 1)
        for leg in chk["legs"]:
            if tier == "quick" and leg.get("thorough_only"):
                continue
            if tier == "thorough" and leg.get("quick_only"):
                continue
            if leg["kind"] == "model":
                r = model_check(leg, workdir)
                report["legs"].append(r)
                if r.get("error"):
                    rdir = os.path.join(ROOT, "evidence", "replay")
                    os.makedirs(rdir, exist_ok=True)
                    rp = os.path.join(rdir, "%s_model_%s.txt" % (prop, os.path.basename(leg["cfg"])))
                    open(rp, "w").write(r.get("tail", ""))
                    violations.append({"property": prop, "reason": "model: " + r.get("violated", r.get("tail", ""))[:200],
                                       "replay": rp, "leg": leg["cfg"]})
            elif leg["kind"] == "trace":
                violations += trace_leg(leg, prop, tier, seed, workdir, findings, report)
            elif leg["kind"] == "custom":
                violations += leg["fn"](leg, prop, tier, seed, workdir, report)
            else:
                raise ToolError("unknown leg kind " + leg["kind"])
    except ToolError as e:
        print("TOOL-ERROR property=%s %s" % (prop, e))
        sys.exit(2)

    tool = [v for v in violations if v.get("property") == "TOOL"]
    if tool:
        print("TOOL-ERROR property=%s harness/trace inconsistency: %s (%s)" % (prop, tool[0]["reason"], tool[0].get("replay")))
        sys.exit(2)
    real = []
    for v in violations:
        if v.get("property") != prop:
            continue
        f = match_finding(v, prop, findings)
        if f:
            if f["id"] not in known_seen:
                known_seen.append(f["id"])
                print("KNOWN-FINDING: property=%s %s" % (prop, f["what"]))
        else:
            real.append(v)

    # ---- evidence
    states = sum(l.get("states", 0) for l in report["legs"] if l["kind"] == "model")
    trans = sum(l.get("transitions", 0) for l in report["legs"] if l["kind"] == "model")
    traces = sum(l.get("validated", 0) for l in report["legs"] if l["kind"] in ("trace", "replay"))
    evals = sum(l.get("scenarios", 0) + l.get("behaviours", 0) for l in report["legs"])
    distinct = sum(l.get("distinct_nontrivial", 0) for l in report["legs"])
    samples = []
    for l in report["legs"]:
        if l.get("sample"):
            samples.append({"leg": l.get("name", l.get("cfg")), "first_events": l["sample"]})
    if not samples:
        samples = [{"note": "model legs only", "legs": [l.get("cfg") for l in report["legs"]]}]
    cov = {"states": max(states, 0), "transitions": max(trans, 0), "traces_validated_against_impl": traces,
           "evaluations": evals, "distinct_nontrivial": distinct, "rule": chk.get("rule", ""), "samples": samples,
           "exhaustive": False,
           "legs": [{k: v for k, v in l.items() if k not in ("sample", "tail")} for l in report["legs"]],
           "known_findings_seen": known_seen}
    if states == 0:
        # no model leg ran: fall back to the generic keys only
        cov.pop("states")
        cov.pop("transitions")
    ev = {"property_id": prop, "tier": tier, "seed": seed, "level": "model_checking", "coverage": cov,
          "assumptions": chk.get("assumptions", []), "wall_s": round(time.time() - t0, 1), "violations": len(real)}
    os.makedirs(os.path.join(ROOT, "evidence"), exist_ok=True)
    with open(os.path.join(ROOT, "evidence", prop + ".json"), "w") as f:
        json.dump(ev, f, indent=1)
    for l in report["legs"]:
        if l["kind"] == "model":
            log("  model %-28s states=%-9d transitions=%-10d %.1fs %s" % (os.path.basename(l["cfg"]), l["states"], l["transitions"], l["wall_s"], l.get("violated", "")))
        else:
            log("  %-6s %-22s scenarios=%-5s validated=%-5s events=%-7s nontrivial=%-4s violations=%s (%.1fs)" % (
                l["kind"], l.get("name"), l.get("scenarios", l.get("behaviours")), l.get("validated"), l.get("events", "-"),
                l.get("distinct_nontrivial"), l.get("violations"), l.get("validate_s", l.get("wall_s", 0))))
    if real:
        for v in real[:5]:
            print("VIOLATION property=%s replay=%s  (%s; leg %s seed %s line %s)" % (
                prop, v.get("replay"), v.get("reason"), v.get("leg"), v.get("seed"), v.get("line_in_scenario", v.get("line"))))
        sys.exit(1)
    print("OK property=%s tier=%s states=%d traces=%d wall=%.1fs" % (prop, tier, states, traces, time.time() - t0))
    sys.exit(0)
